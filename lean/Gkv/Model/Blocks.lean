/-
Whole-collection enumerations of collection.go: `Len`, `determineBlocks`,
`VisitItemsAscendBlockEx` (with an arbitrary block mangler) and `VisitItemsRandom`
(property C16).  Visitors here never stop early.
-/
import Gkv.Model.Treap
open Std

namespace Gkv
namespace Tree

/-- `Collection.Len`: count what an ascending visit from the minimum delivers (0 when empty). -/
def len (cmp : Bytes → Bytes → Ordering) (t : Tree) : Nat :=
  match t.min with
  | none => 0
  | some m => (visitAsc cmp t m.key 0).length

def maxBlockCnt : Nat := 1024

/-- `determineBlocks`: (numBlocks, lenBlock) -/
def determineBlocks (cnt : Nat) : Nat × Nat :=
  if cnt > maxBlockCnt then
    (maxBlockCnt, cnt / maxBlockCnt + (if cnt % maxBlockCnt ≠ 0 then 1 else 0))
  else (cnt, 1)

/-- first pass of both block visitors: the counter `j` decides which keys start a block -/
def blockStartsAux (lenBlock : Nat) : List Item → Nat → List Bytes
  | [], _ => []
  | i :: rest, j =>
    if j = 0 then i.key :: blockStartsAux lenBlock rest 1
    else if j ≥ lenBlock then blockStartsAux lenBlock rest 0
    else blockStartsAux lenBlock rest (j + 1)

def blockStarts (lenBlock : Nat) (items : List Item) : List Bytes := blockStartsAux lenBlock items 0

/-- second pass of `VisitItemsAscendBlockEx` for one start key: up to `lenBlock + 1` items -/
def blockFrom (cmp : Bytes → Bytes → Ordering) (t : Tree) (lenBlock : Nat) (si : Bytes) : List Item :=
  ((visitAsc cmp t si 0).map (·.1)).take (lenBlock + 1)

/-- `VisitItemsAscendBlockEx` with block mangler `mangle`; `none` = the "impossible block sizes"
    error of an empty collection -/
def visitBlocks (cmp : Bytes → Bytes → Ordering) (t : Tree) (mangle : List Bytes → List Bytes) :
    Option (List Item) :=
  let (numBlocks, lenBlock) := determineBlocks (len cmp t)
  if lenBlock < 1 ∨ numBlocks < 1 then none
  else
    match t.min with
    | none => none
    | some m =>
      let starts := blockStarts lenBlock ((visitAsc cmp t m.key 0).map (·.1))
      some ((mangle starts).flatMap (blockFrom cmp t lenBlock))

/-- one inner step of `VisitItemsRandom`: visit from `si`; deliver the first item, move the
    block pointer to the second, retire the block when there is no second -/
def randomStep (cmp : Bytes → Bytes → Ordering) (t : Tree) (si : Option Bytes) :
    List Item × Option Bytes :=
  match si with
  | none => ([], none)
  | some k =>
    match (visitAsc cmp t k 0).map (·.1) with
    | [] => ([], none)
    | [a] => ([a], none)
    | a :: b :: _ => ([a], some b.key)

def randomRound (cmp : Bytes → Bytes → Ordering) (t : Tree) :
    List (Option Bytes) → List Item × List (Option Bytes)
  | [] => ([], [])
  | si :: rest =>
    let (d, si') := randomStep cmp t si
    let (ds, rest') := randomRound cmp t rest
    (d ++ ds, si' :: rest')

def randomRounds (cmp : Bytes → Bytes → Ordering) (t : Tree) :
    Nat → List (Option Bytes) → List Item
  | 0, _ => []
  | n+1, bs =>
    let (d, bs') := randomRound cmp t bs
    d ++ randomRounds cmp t n bs'

/-- `VisitItemsRandom` with the shuffle `RandBm` as parameter -/
def visitRandom (cmp : Bytes → Bytes → Ordering) (t : Tree) (shuffle : List Bytes → List Bytes) :
    Option (List Item) :=
  let (numBlocks, lenBlock) := determineBlocks (len cmp t)
  if lenBlock < 1 ∨ numBlocks < 1 then none
  else
    match t.min with
    | none => none
    | some m =>
      let starts := blockStarts lenBlock ((visitAsc cmp t m.key 0).map (·.1))
      some (randomRounds cmp t (lenBlock + 1) ((shuffle starts).map some))

end Tree
end Gkv
