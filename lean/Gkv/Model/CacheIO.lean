/-
Model L on the line protocol: the cached view of a collection as the harness reports it
(`gkvlite.VerifCacheState`, build tag `verif`), parsed into a `Cache.CTree`; the executable form of
`Rep` (is this view a view of the model's abstract tree?); rendering of answers, reads and views.

  view   ::= "-" | "S" loc | "(" view item nn nb (loc | "n") view ")"
  item   ::= "s" loc | "k" loc ":" hexkey ":" prio | "f" loc ":" hexkey ":" prio ":" hexval
           | "d:" hexkey ":" prio ":" hexval
  loc    ::= off "+" len
-/
import Gkv.Model.World
import Gkv.Model.Cache
open Std

namespace Gkv.Cache
open Gkv Gkv.Lazy

def Ploc.render (p : Ploc) : String := toString p.off ++ "+" ++ toString p.len

def CItem.render : CItem → String
  | .stub loc => "s" ++ Ploc.render loc
  | .keyOnly k p loc => "k" ++ Ploc.render loc ++ ":" ++ Gkv.hexOf k ++ ":" ++ toString p
  | .full i (some loc) =>
    "f" ++ Ploc.render loc ++ ":" ++ Gkv.hexOf i.key ++ ":" ++ toString i.prio ++ ":" ++ Gkv.hexOf i.val
  | .full i none => "d:" ++ Gkv.hexOf i.key ++ ":" ++ toString i.prio ++ ":" ++ Gkv.hexOf i.val

def CTree.render : CTree → String
  | .nil => "-"
  | .stub loc => "S" ++ Ploc.render loc
  | .node l it nn nb r loc =>
    "( " ++ l.render ++ " " ++ it.render ++ " " ++ toString nn ++ " " ++ toString nb ++ " " ++
      (match loc with | some p => Ploc.render p | none => "n") ++ " " ++ r.render ++ " )"

def Rd.render : Rd → String
  | .stat => "s"
  | .read off len => "r" ++ toString off ++ "+" ++ toString len

def Found.render : Option Found → String
  | none => "nil"
  | some fd => Gkv.hexOf fd.key ++ ":" ++ toString fd.prio ++ ":" ++
      (match fd.val with | some v => "h" ++ Gkv.hexOf v | none => "-")

def renderVisitOut (out : List (Found × Nat)) (c : CTree) (rds : List Rd) : String :=
  ",".intercalate (out.map fun x => Found.render (some x.1) ++ "@" ++ toString x.2) ++ " | " ++
    ",".intercalate (rds.map Rd.render) ++ " | " ++ c.render

def renderOut (res : Option Found) (c : CTree) (rds : List Rd) : String :=
  Found.render res ++ " | " ++ ",".intercalate (rds.map Rd.render) ++ " | " ++ c.render

/-! ### parsing -/

def parseLoc (s : String) : Option Ploc :=
  match s.splitOn "+" with
  | [a, b] => do some ⟨← a.toNat?, ← b.toNat?⟩
  | _ => none

def parseHex (s : String) : Option Bytes := Gkv.parseHexAux s.toList []

def parseItem (s : String) : Option CItem :=
  match s.toList with
  | 's' :: rest => (parseLoc (String.ofList rest)).map .stub
  | 'k' :: rest =>
    (match (String.ofList rest).splitOn ":" with
     | [l, k, p] => do some (.keyOnly (← parseHex k) (← p.toNat?) (← parseLoc l))
     | _ => none)
  | 'f' :: rest =>
    (match (String.ofList rest).splitOn ":" with
     | [l, k, p, v] => do some (.full ⟨← parseHex k, ← parseHex v, ← p.toNat?⟩ (some (← parseLoc l)))
     | _ => none)
  | 'd' :: ':' :: rest =>
    (match (String.ofList rest).splitOn ":" with
     | [k, p, v] => do some (.full ⟨← parseHex k, ← parseHex v, ← p.toNat?⟩ none)
     | _ => none)
  | _ => none

/-- recursive descent over the tokens; `fuel` ≥ number of tokens -/
def parseView : Nat → List String → Option (CTree × List String)
  | 0, _ => none
  | _+1, "-" :: rest => some (.nil, rest)
  | fuel+1, "(" :: rest => do
    let (l, rest) ← parseView fuel rest
    match rest with
    | it :: nn :: nb :: loc :: rest => do
      let it ← parseItem it
      let nn ← nn.toNat?
      let nb ← nb.toNat?
      let loc ← (if loc = "n" then some none else (parseLoc loc).map some)
      let (r, rest) ← parseView fuel rest
      match rest with
      | ")" :: rest => some (.node l it nn nb r loc, rest)
      | _ => none
    | _ => none
  | _+1, tok :: rest =>
    match tok.toList with
    | 'S' :: l => (parseLoc (String.ofList l)).map fun p => (.stub p, rest)
    | _ => none
  | _+1, [] => none

def parseViewAll (ts : List String) : Option CTree :=
  match parseView (ts.length + 1) ts with
  | some (c, []) => some c
  | _ => none

/-! ### `Rep`, executable -/

def repItemB : CItem → Item → Option Ploc → Bool
  | .stub loc, _, q => q == some loc
  | .keyOnly k p loc, i, q => q == some loc && k == i.key && p == i.prio
  | .full i' loc, i, q => i' == i && loc == q

def repB : CTree → Tree → Bool
  | .nil, .nil => true
  | .stub loc, .node _ _ _ _ _ p _ => p == some loc
  | .node cl ci nn nb cr cp, .node l i a b r p q =>
    nn == a && nb == b && cp == p && repB cl l && repB cr r && repItemB ci i q
  | _, _ => false

end Gkv.Cache
