/-
Leak freedom for model H (`Gkv.Model.Versions`): which nodes are on the free list once every handle,
snapshot and pin of a lineage has been released?

Choice of `F`.  `Versions.reclaim s v (F v)` frees the nodes `n` with `F v n ∧ mark n = some v` (after marking
the whole cached tree of a never-superseded version).  In the code `F v` is "reachable from the root of v or
from `reclaimLater` of v along nodes that all carry v's mark" (`reclaimNodesUnlocked`).  Here we analyse
the most generous variant

    FT v n := True        -- a dying version frees EVERY node that carries its mark

(in its tree, in its `reclaimLater` set, or a temporary).  Whatever leaks under `FT` leaks under every
smaller `F`; the positive theorems are about `FT` and transfer to the code's `F` exactly when every node
marked v is reached by the walk of `reclaimNodesUnlocked` (a statement about the shape of the treap that
this abstract model does not contain).

`load` of Versions.lean has no guard on the parent node.  Here it gets a guard `G s p`:
  `GLive`    the goroutine that loads holds a live version whose tree contains `p`      (what the code does)
  `GStrict`  … and `p` itself has not been replaced yet (`mark p = none`)                 (what leak freedom needs)
-/
import Gkv.Model.Versions
namespace Gkv.VersionsLeak
open Classical
open Gkv.Versions

/-- the variant of the protocol that is analysed: a dying version frees every node carrying its mark -/
def FT : Nat → Nat → Prop := fun _ _ => True

/-- `n` has been handed out by `mkNode`/`populateNode` for this lineage: it is in some version's tree (trees only
    grow in the model: `mutate`'s `New`, `load`) or carries a mark (covers `mutate`'s temporaries `T`). -/
def known (s : St) (n : Nat) : Prop := (∃ v, s.tree v n) ∨ (∃ v, s.mark n = some v)

/-- allocated = handed out and not (yet) returned to the free list -/
def alloc (s : St) (n : Nat) : Prop := known s n ∧ ¬ s.freed n

/-- the loading goroutine holds a live version whose tree contains the parent -/
def GLive (s : St) (p : Nat) : Prop := ∃ w, s.refs w > 0 ∧ s.tree w p

/-- … and the parent has not been replaced by a mutation yet -/
def GStrict (s : St) (p : Nat) : Prop := GLive s p ∧ s.mark p = none

def init0 : St :=
  { N := 0, refs := fun w => if w = 0 then 1 else 0, hp := fun w => if w = 0 then 1 else 0,
    chained := fun _ => false, tree := fun _ _ => False, mark := fun _ => none, freed := fun _ => False }

/-- `Versions.Reach FT` with a guard on `load` -/
inductive ReachG (G : St → Nat → Prop) : St → Prop
  | init : ReachG G init0
  | acquire {s v} : ReachG G s → s.hp v > 0 → ReachG G (acquire s v)
  | release {s v} : ReachG G s → s.hp v > 0 → ReachG G (release FT s v)
  | load {s p x} : ReachG G s → G s p → s.mark x = none → ¬ s.freed x → ReachG G (load s p x)
  | mutate {s R Rn New T} : ReachG G s → MutPre s R Rn New T → ReachG G (mutate FT s R Rn New T)

/-- the leak invariant -/
structure LInv (s : St) : Prop where
  /-- marks name versions that have been published -/
  mark_born : ∀ n v, s.mark n = some v → v ≤ s.N
  /-- every node carrying the mark of a dead version is on the free list -/
  dead_freed : ∀ n v, s.mark n = some v → s.refs v = 0 → s.freed n
  /-- once the last version is dead its whole tree is marked (`markAllUnlocked`) -/
  last_marked : s.refs s.N = 0 → ∀ n, s.tree s.N n → s.mark n ≠ none
  /-- only marked nodes are ever freed -/
  freed_marked : ∀ n, s.freed n → ∃ v, s.mark n = some v

/-- an unmarked node of any version is shared with the current version -/
def Shared (s : St) : Prop := ∀ u n, s.tree u n → s.mark n = none → s.tree s.N n

/-- an orphan: in the tree of some version, never marked, not in the current tree -/
def orphan (s : St) (n : Nat) : Prop := (∃ v, s.tree v n) ∧ s.mark n = none ∧ ¬ s.tree s.N n

end Gkv.VersionsLeak
