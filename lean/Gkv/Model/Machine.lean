/-
The store-level state machine used to state the history theorems (C01(c), C02, C12): one
writable file-backed store, driven by an arbitrary list of operations, next to the specification
machine "a sorted map per collection name, plus the state as of the last Flush".

`sstep` uses exactly the functions of Model B that the executable driver (`World.lean`) uses.
-/
import Gkv.Model.Store
import Gkv.Model.Spec
open Std

namespace Gkv.Machine
open Gkv

/-- a writable store on a file -/
structure SState where
  colls : List Coll
  file : Bytes
  size : Nat
deriving Repr

inductive SOp
  | setColl (n : Bytes)            -- SetCollection (new or existing name)
  | rmColl (n : Bytes)             -- RemoveCollection
  | set (n : Bytes) (i : Item)     -- SetItem with a valid item, through the current handle
  | del (n : Bytes) (k : Bytes)    -- Delete
  | flush                          -- Store.Flush (no fault)
  | reopen                         -- drop the store, NewStore on the same file
deriving Repr

def sinit : SState := ⟨[], [], 0⟩

def sstep (cmpOf : Bytes → CmpKind) (s : SState) : SOp → SState
  | .setColl n =>
    let root := ((collsGet n s.colls).map (·.root)).getD .nil
    { s with colls := collsSet ⟨n, cmpOf n, root⟩ s.colls }
  | .rmColl n => { s with colls := collsRemove n s.colls }
  | .set n i =>
    match collsGet n s.colls with
    | none => s
    | some c => { s with colls := collsSet { c with root := Tree.setItem c.cmp.fn c.root i } s.colls }
  | .del n k =>
    match collsGet n s.colls with
    | none => s
    | some c => { s with colls := collsSet { c with root := (Tree.delete c.cmp.fn c.root k).1 } s.colls }
  | .flush =>
    let r := flushStore s.colls { bytes := s.file, size := s.size, log := [] }
    { colls := r.1, file := r.2.bytes, size := r.2.size }
  | .reopen =>
    match openStore 0 s.file cmpOf with
    | .ok st => { colls := st.colls, file := s.file, size := st.size }
    | _ => s

def srun (cmpOf : Bytes → CmpKind) (ops : List SOp) : SState := ops.foldl (sstep cmpOf) sinit

/-! ### the specification -/

/-- collections by name (sorted by name), each a sorted list of items -/
abbrev SpecStore := List (Bytes × List Item)

def specSet (n : Bytes) (l : List Item) : SpecStore → SpecStore
  | [] => [(n, l)]
  | (m, x) :: rest =>
    match compare n m with
    | .lt => (n, l) :: (m, x) :: rest
    | .eq => (n, l) :: rest
    | .gt => (m, x) :: specSet n l rest

def specGet (n : Bytes) : SpecStore → Option (List Item)
  | [] => none
  | (m, x) :: rest => if m = n then some x else specGet n rest

structure SpecState where
  cur : SpecStore       -- what the API shows
  durable : SpecStore   -- what re-opening the file shows: the state at the last Flush

def specInit : SpecState := ⟨[], []⟩

def specStep (cmpOf : Bytes → CmpKind) (s : SpecState) : SOp → SpecState
  | .setColl n => { s with cur := specSet n ((specGet n s.cur).getD []) s.cur }
  | .rmColl n => { s with cur := s.cur.filter (fun p => p.1 ≠ n) }
  | .set n i =>
    match specGet n s.cur with
    | none => s
    | some l => { s with cur := specSet n (Spec.insert (cmpOf n).fn l i) s.cur }
  | .del n k =>
    match specGet n s.cur with
    | none => s
    | some l => { s with cur := specSet n (Spec.erase (cmpOf n).fn l k) s.cur }
  | .flush => { s with durable := s.cur }
  | .reopen => { s with cur := s.durable }

def specRun (cmpOf : Bytes → CmpKind) (ops : List SOp) : SpecState := ops.foldl (specStep cmpOf) specInit

/-- what the API can observe of a store: names, and per name the items in key order -/
def absS (s : SState) : SpecStore := s.colls.map (fun c => (c.name, c.root.toList))

end Gkv.Machine
