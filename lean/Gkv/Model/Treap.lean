/-
Model A — the treap of treap.go / collection.go as pure functions.

Every function mirrors the Go function of the same name branch by branch.  A tree node also
carries the two file locations Go keeps beside it (`nodeLoc.loc` of the slot that points at the
node, `itemLoc.loc` of its item): the in-memory algorithms never look at them, they only decide
what `Flush` still has to write (Model B).  Copying a Go `nodeLoc` (loc + node pointer) is copying
the subtree value here; `mkNode` creates a node without a node location but keeps the item's.
-/
import Gkv.Model.Basic
open Std

namespace Gkv

inductive Tree where
  | nil : Tree
  | node (l : Tree) (it : Item) (nn nb : Nat) (r : Tree) (loc iloc : Option Ploc) : Tree
deriving DecidableEq, Repr, Inhabited

namespace Tree

def size : Tree → Nat
  | nil => 0
  | node l _ _ _ r _ _ => l.size + 1 + r.size

/-- in-order item list -/
def toList : Tree → List Item
  | nil => []
  | node l i _ _ r _ _ => l.toList ++ i :: r.toList

/-- stored aggregate `numNodes` (0 for the empty slot), as `numInfo` reads it -/
def nn : Tree → Nat
  | nil => 0
  | node _ _ n _ _ _ _ => n

/-- stored aggregate `numBytes` -/
def nb : Tree → Nat
  | nil => 0
  | node _ _ _ b _ _ _ => b

def isNil : Tree → Bool
  | nil => true
  | _ => false

/-- `t.mkNode(itemLoc, left, right, leftNum+rightNum+1, leftBytes+rightBytes+itemBytes)`:
    a fresh node, not yet persisted; the item keeps its own location. -/
def mk (l : Tree) (i : Item) (r : Tree) (iloc : Option Ploc) : Tree :=
  node l i (l.nn + r.nn + 1) (l.nb + r.nb + i.nbytes) r none iloc

@[simp] theorem size_nil : (nil : Tree).size = 0 := rfl
@[simp] theorem size_node (l r : Tree) (i : Item) (a b : Nat) (p q : Option Ploc) :
    (node l i a b r p q).size = l.size + 1 + r.size := rfl
@[simp] theorem size_mk (l r : Tree) (i : Item) (q : Option Ploc) :
    (mk l i r q).size = l.size + 1 + r.size := rfl

section algo
variable (cmp : Bytes → Bytes → Ordering)

/-- treap.go `split`: (left, middle, right); `middle` is the node that holds key `s` itself
    (with its children), or `nil`. -/
def split : Tree → Bytes → Tree × Tree × Tree
  | nil, _ => (nil, nil, nil)
  | node l i a b r p q, s =>
    match cmp s i.key with
    | .eq => (l, node l i a b r p q, r)
    | .lt =>
      match l with
      | nil => (nil, nil, node l i a b r p q)
      | _ => let x := split l s; (x.1, x.2.1, mk x.2.2 i r q)
    | .gt =>
      match r with
      | nil => (node l i a b r p q, nil, nil)
      | _ => let x := split r s; (mk l i x.1 q, x.2.1, x.2.2)

theorem split_size : ∀ (t : Tree) (s : Bytes),
    (split cmp t s).1.size + (split cmp t s).2.2.size ≤ t.size
  | nil, s => by simp [split]
  | node l i a b r p q, s => by
    unfold split
    split
    · simp
    · split
      · simp
      · have := split_size l s; simp at *; omega
    · split
      · simp
      · have := split_size r s; simp at *; omega

/-- treap.go `union`: items of `that` take precedence over items of `this` with an equal key. -/
def union (a b : Tree) : Tree :=
  match a, b with
  | nil, b => b
  | a, nil => a
  | node al ai an ab ar ap aq, node bl bi bn bb br bp bq =>
    if ai.prio > bi.prio then
      let x := split cmp (node bl bi bn bb br bp bq) ai.key
      have := split_size cmp (node bl bi bn bb br bp bq) ai.key
      let nl := union al x.1
      let nr := union ar x.2.2
      match x.2.1 with
      | node _ mi _ _ _ _ mq => mk nl mi nr mq
      | nil => mk nl ai nr aq
    else
      let x := split cmp (node al ai an ab ar ap aq) bi.key
      have := split_size cmp (node al ai an ab ar ap aq) bi.key
      mk (union x.1 bl) bi (union x.2.2 br) bq
termination_by a.size + b.size
decreasing_by
  all_goals (simp only [size_node] at this ⊢; omega)

/-- treap.go `join`: all keys of `a` are below all keys of `b`. -/
def join : Tree → Tree → Tree
  | nil, t => t
  | node l i a b r p q, nil => node l i a b r p q
  | node l1 i1 a1 b1 r1 p1 q1, node l2 i2 a2 b2 r2 p2 q2 =>
    if i1.prio > i2.prio then mk l1 i1 (join r1 (node l2 i2 a2 b2 r2 p2 q2)) q1
    else mk (join (node l1 i1 a1 b1 r1 p1 q1) l2) i2 r2 q2
termination_by a b => a.size + b.size
decreasing_by all_goals (simp only [size_node]; omega)

/-- `Collection.GetItem`: plain search-tree descent. -/
def get : Tree → Bytes → Option Item
  | nil, _ => none
  | node l i _ _ r _ _, k =>
    match cmp k i.key with
    | .lt => get l k
    | .gt => get r k
    | .eq => some i

/-- `Collection.SetItem` after validation: `union(root, singleton)`. -/
def setItem (t : Tree) (i : Item) : Tree :=
  union cmp t (node nil i 1 i.nbytes nil none none)

/-- `Collection.Delete`: look the key up, split, join.  Returns the new root and `wasDeleted`. -/
def delete (t : Tree) (k : Bytes) : Tree × Bool :=
  match get cmp t k with
  | none => (t, false)
  | some _ =>
    let x := split cmp t k
    (join x.1 x.2.2, true)

end algo

/-- `Store.walk` with the left-child choice (`MinItem`). -/
def min : Tree → Option Item
  | nil => none
  | node nil i _ _ _ _ _ => some i
  | node l _ _ _ _ _ _ => min l

/-- `Store.walk` with the right-child choice (`MaxItem`). -/
def max : Tree → Option Item
  | nil => none
  | node _ i _ _ nil _ _ => some i
  | node _ _ _ _ r _ _ => max r

/-- `Collection.GetTotals`: the root's stored aggregates (not a recount). -/
def totals (t : Tree) : Nat × Nat := (t.nn, t.nb)

/-- `visitNodes` with `ascendChoice`, for a visitor that never stops: the (item, depth) sequence. -/
def visitAsc (cmp : Bytes → Bytes → Ordering) : Tree → Bytes → Nat → List (Item × Nat)
  | nil, _, _ => []
  | node l i _ _ r _ _, tgt, d =>
    if cmp tgt i.key = .gt then visitAsc cmp r tgt (d+1)
    else visitAsc cmp l tgt (d+1) ++ (i, d) :: visitAsc cmp r tgt (d+1)

/-- `visitNodes` with `descendChoice`. -/
def visitDesc (cmp : Bytes → Bytes → Ordering) : Tree → Bytes → Nat → List (Item × Nat)
  | nil, _, _ => []
  | node l i _ _ r _ _, tgt, d =>
    if cmp tgt i.key = .gt then visitDesc cmp r tgt (d+1) ++ (i, d) :: visitDesc cmp l tgt (d+1)
    else visitDesc cmp l tgt (d+1)

/-- `visitNodes` itself: stateful visitor with early stop.  Returns the final visitor state and
    `keepGoing`.  `asc = true` is `ascendChoice`, `false` is `descendChoice`. -/
def visit {σ : Type} (cmp : Bytes → Bytes → Ordering) (asc : Bool)
    (v : σ → Item → Nat → σ × Bool) : Tree → Bytes → Nat → σ → σ × Bool
  | nil, _, _, s => (s, true)
  | node l i _ _ r _ _, tgt, d, s =>
    let goL := visit cmp asc v l tgt (d+1)
    let goR := visit cmp asc v r tgt (d+1)
    let c := cmp tgt i.key
    let choice := if asc then c != .gt else c == .gt
    let goT := if asc then goL else goR
    let goF := if asc then goR else goL
    if choice then
      let x := goT s
      if !x.2 then (x.1, false) else
      let y := v x.1 i d
      if !y.2 then (y.1, false) else
      goF y.1
    else goF s

/-- fold a visitor over a sequence, stopping after the first item it rejects -/
def foldUntil {σ : Type} (v : σ → Item → Nat → σ × Bool) : List (Item × Nat) → σ → σ × Bool
  | [], s => (s, true)
  | (i, d) :: rest, s =>
    let (s', k) := v s i d
    if !k then (s', false) else foldUntil v rest s'

end Tree
end Gkv
