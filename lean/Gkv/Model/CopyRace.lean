/-
Model R — the two-field race behind defect F16 (`itemLoc.Copy`, item.go).

An `itemLoc` has two fields, a file location `loc` and a cached item `item`, written by three
parties without a common lock (the fork compiles its global lock out):

* the flusher persists the item and publishes its location:   `loc : none → some`   (only when an
  item is cached; `WriteOrder`: a location is never un-published);
* an evicting reader drops the cached item, but only once a location is published (`node.Evict`);
* a reader that needs the item reloads it from the location (`itemLoc.read`): `item : none → some`,
  only when a location is published;
* the mutator's `Copy` reads the two fields in TWO steps, in one order or the other, while the
  others may run in between.

Everything is finite and decidable; the theorems are by cases on the event list's effect.
-/
namespace Gkv.CopyRace

/-- the source slot, as booleans: is a location published, is an item cached -/
structure Slot where
  loc : Bool
  item : Bool
deriving DecidableEq, Repr

/-- what the other parties may do between the copier's two reads -/
inductive Ev
  | flush    -- persist + publish the location (needs a cached item)
  | evict    -- drop the cached item (needs a published location)
  | reload   -- load the item again from the file (needs a published location)
deriving DecidableEq, Repr

def step (s : Slot) : Ev → Slot
  | .flush => if s.item then { s with loc := true } else s
  | .evict => if s.loc then { s with item := false } else s
  | .reload => if s.loc then { s with item := true } else s

def run (s : Slot) (es : List Ev) : Slot := es.foldl step s

/-- a slot is usable: it has a cached item or a location to reload it from -/
def Slot.ok (s : Slot) : Bool := s.loc || s.item

/-- the copy made by reading `loc` first, then (after `es`) `item` — the order of the pinned code -/
def copyLocFirst (s : Slot) (es : List Ev) : Slot := { loc := s.loc, item := (run s es).item }

/-- the copy made by reading `item` first, then (after `es`) `loc` — the repaired order -/
def copyItemFirst (s : Slot) (es : List Ev) : Slot := { loc := (run s es).loc, item := s.item }

end Gkv.CopyRace
