/-
Property C15 — the accounting of the item reference-count callbacks (`ItemAlloc`, `ItemAddRef`,
`ItemDecRef`) as an event system over node objects and items.  Nodes and items are `Nat` ids.

Go sources mirrored:
* alloc.go `mkNode`: `ItemAddRef(i)` when the `itemLoc` it copies caches an item, then the new
  node's `itemLoc` caches the same item;
* alloc.go `freeNodeUnlocked`: `ItemDecRef` of the item the node caches, then the node is zeroed
  and put on the free list;
* item.go `itemLoc.read`: `ItemAlloc` of a new item (the application sets its count to 1), which
  after `casItem` is what the node caches; an older cached item (cached without its value, re-read
  with it) gets `ItemDecRef`;
* node.go `Evict` + collection.go `EvictSomeItems` / the in-visit eviction of treap.go
  `visitNodes`: the node's cached item is dropped and gets `ItemDecRef`;
* collection.go `GetItem` / `MinItem` / `MaxItem` / the visitors: `ItemAddRef` before an item is
  returned to the caller, who releases it with `ItemDecRef`.
-/

namespace Gkv.Refs

/-- point update of a function -/
def upd {β : Type} (f : Nat → β) (a : Nat) (b : β) : Nat → β := fun x => if x = a then b else f x

structure St where
  /-- the application's view of every item's count: `ItemAlloc` sets 1, `ItemAddRef` +1,
      `ItemDecRef` -1 -/
  count : Nat → Int
  /-- the allocated (made and not yet freed) node objects -/
  nodes : List Nat
  /-- node id ↦ the item its `itemLoc` currently caches -/
  cached : Nat → Option Nat
  /-- references handed to the caller (GetItem/MinItem/MaxItem/visitor results) and not yet
      returned -/
  handed : Nat → Nat

/-- a new store: no node, no reference -/
def St.init : St := ⟨fun _ => 0, [], fun _ => none, fun _ => 0⟩

inductive Ev
  /-- `mkNode` copying an `itemLoc` that caches item `i` (or `SetItem`'s new node for the
      caller's item): `ItemAddRef(i)`; node `n` now caches `i` -/
  | mkNode (n i : Nat)
  /-- `mkNode` of an `itemLoc` whose item is not cached: no callback -/
  | mkNodeEmpty (n : Nat)
  /-- `itemLoc.read` allocates item `i` (`ItemAlloc`: count := 1) and caches it in node `n`; if
      `n` cached an older item `j` (value re-read) that one gets `ItemDecRef` -/
  | load (n i : Nat)
  /-- `Evict` / in-visit eviction: the node drops its cached item with `ItemDecRef` -/
  | evict (n : Nat)
  /-- `freeNodeUnlocked`: `ItemDecRef` of the cached item, the node becomes unallocated -/
  | freeNode (n : Nat)
  /-- `ItemAddRef` before returning item `i` to the caller -/
  | handOut (i : Nat)
  /-- the caller's `ItemDecRef` -/
  | giveBack (i : Nat)
deriving DecidableEq, Repr

/-- `ItemDecRef` of whatever a node caches -/
def decCached (count : Nat → Int) : Option Nat → Nat → Int
  | none => count
  | some j => upd count j (count j - 1)

def step (s : St) : Ev → St
  | .mkNode n i =>
    { s with count := upd s.count i (s.count i + 1), nodes := n :: s.nodes,
             cached := upd s.cached n (some i) }
  | .mkNodeEmpty n => { s with nodes := n :: s.nodes, cached := upd s.cached n none }
  | .load n i =>
    { s with count := upd (decCached s.count (s.cached n)) i 1, cached := upd s.cached n (some i) }
  | .evict n => { s with count := decCached s.count (s.cached n), cached := upd s.cached n none }
  | .freeNode n =>
    { s with count := decCached s.count (s.cached n), nodes := s.nodes.erase n,
             cached := upd s.cached n none }
  | .handOut i => { s with count := upd s.count i (s.count i + 1), handed := upd s.handed i (s.handed i + 1) }
  | .giveBack i => { s with count := upd s.count i (s.count i - 1), handed := upd s.handed i (s.handed i - 1) }

/-- what the Go code guarantees when it issues the event -/
def pre (s : St) : Ev → Prop
  | .mkNode n _ => n ∉ s.nodes                     -- the node object comes from the allocator
  | .mkNodeEmpty n => n ∉ s.nodes
  | .load n i => n ∈ s.nodes ∧ s.count i = 0       -- `i` is fresh: nobody holds a reference to it
  | .evict n => n ∈ s.nodes
  | .freeNode n => n ∈ s.nodes                     -- no double free ("double free node" panic)
  | .handOut i => ∃ n, n ∈ s.nodes ∧ s.cached n = some i   -- it was found in a live node
  | .giveBack i => 0 < s.handed i                  -- the caller returns only what it was given

instance : (s : St) → (e : Ev) → Decidable (pre s e)
  | s, .mkNode n _ => inferInstanceAs (Decidable (n ∉ s.nodes))
  | s, .mkNodeEmpty n => inferInstanceAs (Decidable (n ∉ s.nodes))
  | s, .load n i => inferInstanceAs (Decidable (n ∈ s.nodes ∧ s.count i = 0))
  | s, .evict n => inferInstanceAs (Decidable (n ∈ s.nodes))
  | s, .freeNode n => inferInstanceAs (Decidable (n ∈ s.nodes))
  | s, .handOut i =>
    decidable_of_iff (∃ n ∈ s.nodes, s.cached n = some i)
      ⟨fun ⟨n, h1, h2⟩ => ⟨n, h1, h2⟩, fun ⟨n, h1, h2⟩ => ⟨n, h1, h2⟩⟩
  | s, .giveBack i => inferInstanceAs (Decidable (0 < s.handed i))

/-- the states reachable from a new store by events that respect their preconditions -/
inductive Reach : St → Prop
  | init : Reach St.init
  | step {s : St} (e : Ev) : Reach s → pre s e → Reach (step s e)

/-- run a list of events, checking the preconditions -/
def run : St → List Ev → Option St
  | s, [] => some s
  | s, e :: es => if pre s e then run (step s e) es else none

/-- what entitles gkvlite to LOOK at item `i` (compare its key, copy its value, show it to a
    visitor): it reaches the item through a node that is allocated and caches it, or it holds a
    reference it took for handing the item out.  A pointer kept from an earlier moment is not on
    this list — defect F20: `VisitItemsAscendEx` kept the previously visited `*Item`, the block
    visitors kept slices of visited items' key buffers, after the visit had released them. -/
def mayLookAt (s : St) (i : Nat) : Prop :=
  (∃ n, n ∈ s.nodes ∧ s.cached n = some i) ∨ 0 < s.handed i

instance (s : St) (i : Nat) : Decidable (mayLookAt s i) :=
  decidable_of_iff ((∃ n ∈ s.nodes, s.cached n = some i) ∨ 0 < s.handed i)
    ⟨fun h => h.elim (fun ⟨n, h1, h2⟩ => Or.inl ⟨n, h1, h2⟩) Or.inr,
     fun h => h.elim (fun ⟨n, h1, h2⟩ => Or.inl ⟨n, h1, h2⟩) Or.inr⟩

/-- number of allocated nodes whose `itemLoc` caches item `i` -/
def holders (s : St) (i : Nat) : Nat := s.nodes.countP (fun n => s.cached n = some i)

end Gkv.Refs
