/-
Model P — how `Store.Flush` and `Store.Snapshot` pin the collections of a store while the one
mutating goroutine may replace collection handles under them (defect F21, repaired).

Go sources mirrored (store.go `Flush`, `Snapshot`, `SetCollection`, `RemoveCollection`;
collection.go `rootAddRef`, `rootAddRefIfOpen`, `closeCollection`):

* the store keeps a map name ↦ handle; the pinning goroutine READS the map once (`getColl`) and
  then walks the names in sorted order, pinning each handle it found in that copy;
* the mutator may, at any moment, replace the handle of a name by a fresh one (`SetCollection` on an
  existing name: the new handle shares the root, the old handle is CLOSED, its `root` becomes nil)
  or publish a new version through the current handle (`SetItem`/`Delete`);
* `rootAddRef` on a closed handle dereferences nil — a panic;
* the repaired code pins through `rootAddRefIfOpen`; when that finds the handle closed, every pin
  taken so far is released and the walk starts over with the map as it is now.

A handle is a `Nat` id; handle ids grow, `closed` lists the closed ones.  `cur i` is the handle the
map holds for collection `i` (collections are `0 .. n-1`, in name order), `ver i` the version
current in collection `i`.  The pinning goroutine's state: the copy of the map it works from, how
many collections it has pinned, and the versions it pinned.

Steps are taken by an arbitrary schedule (`List Ev`): the theorems quantify over all of them.
-/
namespace Gkv.FlushPin

structure St where
  n      : Nat                 -- number of collections
  cur    : Nat → Nat           -- the store's map: collection ↦ handle id
  closed : List Nat            -- closed handle ids
  ver    : Nat → Nat           -- collection ↦ current version number
  next   : Nat                 -- next fresh handle id
  -- the pinning goroutine
  copy   : Option (Nat → Nat)  -- its copy of the map (none: not read yet / starting over)
  pinned : List Nat            -- versions pinned so far, collection 0 first
  snaps  : List (Nat → Nat)    -- ghost: the version of EVERY collection at the moment of each pin
  panicked : Bool
  restarts : Nat

inductive Ev
  | swap (i : Nat)      -- mutator: SetCollection on the existing name i (old handle closed)
  | mutate (i : Nat)    -- mutator: a new version of collection i
  | pin                 -- pinning goroutine: its next step
deriving Repr

def St.done (s : St) : Bool := s.copy.isSome && s.pinned.length == s.n

/-- one step of the pinning goroutine.  `safe = true`: the repaired code (`rootAddRefIfOpen`,
    start over when the handle is closed); `safe = false`: the pinned tree (`rootAddRef`). -/
def pinStep (safe : Bool) (s : St) : St :=
  if s.panicked || s.done then s else
  match s.copy with
  | none => { s with copy := some s.cur, pinned := [], snaps := [] }
  | some m =>
    let i := s.pinned.length
    if (m i) ∈ s.closed then
      if safe then { s with copy := none, pinned := [], snaps := [], restarts := s.restarts + 1 }
      else { s with panicked := true }
    else { s with pinned := s.pinned ++ [s.ver i], snaps := s.snaps ++ [s.ver] }

def step (safe : Bool) (s : St) : Ev → St
  | .swap i =>
    if i < s.n then
      { s with closed := s.cur i :: s.closed,
               cur := fun j => if j = i then s.next else s.cur j,
               next := s.next + 1 }
    else s
  | .mutate i => if i < s.n then { s with ver := fun j => if j = i then s.ver i + 1 else s.ver j } else s
  | .pin => pinStep safe s

def run (safe : Bool) (s : St) (es : List Ev) : St := es.foldl (step safe) s

/-- a store with `n` collections, handles `0 .. n-1` all open, the pinning goroutine about to start -/
def init (n : Nat) (ver : Nat → Nat) : St :=
  { n := n, cur := fun i => i, closed := [], ver := ver, next := n,
    copy := none, pinned := [], snaps := [], panicked := false, restarts := 0 }

end Gkv.FlushPin
