/-
Model basics: byte strings, comparators, items, file locations.
Core Lean + Std only (no Mathlib) so that the driver links as a native executable.
-/
import Std
open Std

namespace Gkv

abbrev Bytes := List UInt8

/-- A persisted range of bytes (ploc.go). `off = 0 ∧ len = 0` is Go's "empty" ploc. -/
structure Ploc where
  off : Nat
  len : Nat
deriving DecidableEq, Repr, Inhabited

/-- A stored item (item.go `Item` without `Transient`).  Only valid items are ever stored:
    `prio` is the non-negative int32 priority. -/
structure Item where
  key : Bytes
  val : Bytes
  prio : Nat
deriving DecidableEq, Repr, Inhabited

/-- Number of key bytes plus number of value bytes (`Item.NumBytes`). -/
def Item.nbytes (i : Item) : Nat := i.key.length + i.val.length

/-- The comparators the harness installs (`KeyCompare`).  -/
inductive CmpKind | bytes | rev | fold
deriving DecidableEq, Repr, Inhabited

/-- bytes.Compare: lexicographic on unsigned bytes, shorter prefix first. -/
def cmpBytes (a b : Bytes) : Ordering := compare a b

def lowerByte (c : UInt8) : UInt8 := if 65 ≤ c ∧ c ≤ 90 then c + 32 else c

def CmpKind.fn : CmpKind → Bytes → Bytes → Ordering
  | .bytes => cmpBytes
  | .rev => fun a b => cmpBytes b a
  | .fold => fun a b => cmpBytes (a.map lowerByte) (b.map lowerByte)

instance : TransCmp cmpBytes := inferInstanceAs (TransCmp (compare : Bytes → Bytes → Ordering))

instance (k : CmpKind) : TransCmp k.fn := by
  cases k
  · exact inferInstanceAs (TransCmp cmpBytes)
  · exact
      { eq_swap := by
          intro a b
          show cmpBytes b a = (cmpBytes a b).swap
          exact OrientedCmp.eq_swap
        isLE_trans := by
          intro a b c h1 h2
          show (cmpBytes c a).isLE
          have h1' : (cmpBytes b a).isLE := h1
          have h2' : (cmpBytes c b).isLE := h2
          exact TransCmp.isLE_trans h2' h1' }
  · exact
      { eq_swap := by
          intro a b
          show cmpBytes _ _ = (cmpBytes _ _).swap
          exact OrientedCmp.eq_swap
        isLE_trans := by
          intro a b c h1 h2
          show (cmpBytes _ _).isLE
          exact TransCmp.isLE_trans (cmp := cmpBytes) h1 h2 }

end Gkv
