/-
Model B, read log (property C19): which `Stat`/`ReadAt` calls the store issues on its file when
it is opened, when an item is (lazily) loaded through `itemLoc.read`, and when a node is loaded
through `nodeLoc.read`.  Nothing here depends on what the bytes decode to beyond what the Go code
itself inspects before deciding on its next read.

Go sources mirrored: store.go `readRoots`, `readRootsScan`, `scanBackwardsForMagicEnd`,
`readRootsEnd`, `checkAndReadRoots`, `validateAndSetCollections`; item.go `itemLoc.read`;
node.go `nodeLoc.read`.
-/
import Gkv.Model.Store
open Std

namespace Gkv.Lazy
open Gkv

/-- one call on the `StoreFile` that does not change it -/
inductive Rd
  | stat
  | read (off len : Nat)
deriving DecidableEq, Repr

/-- `validateAndSetCollections(data, length)` preceded by the two `MagicBeg` comparisons of
    `checkAndReadRoots`: what is done with the bytes `[offset, size-24)` once they were read.
    No further file access happens here. -/
def checkData (data : Bytes) (len : Nat) : Option (List (Bytes × Option Ploc)) :=
  if data.take 6 ≠ magicBeg ∨ (data.drop 6).take 6 ≠ magicBeg then none
  else
    let ver := unbe ((data.drop 12).take 4)
    let len0 := unbe ((data.drop 16).take 4)
    if ver ≠ fmtVersion ∨ len0 ≠ len then none
    else decJson (data.drop 20)

/-- One candidate position of the backward scan, `Store.size = e > rootsLen`: the reads issued
    there, and whether the scan is over (`true`: a root record was accepted, or a `ReadAt` failed
    and the error was returned) or goes on at `e - 1` (`false`).

    * `ReadAt(rootsEnd[24], e-24)` (`scanBackwardsForMagicEnd`); an error ends the scan;
    * unless both end magics match → `size--`, continue;
    * `readRootsEnd`: offset (int64) and length (uint32) out of the 24 bytes (no file access);
    * `checkAndReadRoots`: only if `0 ≤ offset < e-44 ∧ length = uint32(e-offset)` is
      `ReadAt(data[e-offset-24], offset)` issued (an error ends the scan); then the begin
      magics, version, length and the JSON are checked (`checkData`); success ends the scan;
    * otherwise `size--`, continue. -/
def readsAt (f : Bytes) (e : Nat) : List Rd × Bool :=
  match readAt f (e - rootsEndLen) rootsEndLen with
  | none => ([Rd.read (e - rootsEndLen) rootsEndLen], true)
  | some tail =>
    if (tail.drop 12).take 6 ≠ magicEnd ∨ tail.drop 18 ≠ magicEnd then
      ([Rd.read (e - rootsEndLen) rootsEndLen], false)
    else
      let off := unbe (tail.take 8)
      let len := unbe ((tail.drop 8).take 4)
      if ¬ (off < 9223372036854775808 ∧ off + rootsLen < e ∧ len = (e - off) % 4294967296) then
        ([Rd.read (e - rootsEndLen) rootsEndLen], false)
      else
        match readAt f off (e - off - rootsEndLen) with
        | none => ([Rd.read (e - rootsEndLen) rootsEndLen, Rd.read off (e - off - rootsEndLen)], true)
        | some data =>
          ([Rd.read (e - rootsEndLen) rootsEndLen, Rd.read off (e - off - rootsEndLen)],
           (checkData data len).isSome)

/-- The reads of `readRootsScan(false)` started with `Store.size = sz`.  Both Go loops
    (`readRootsScan` and `scanBackwardsForMagicEnd`) decrement `size` by one per iteration, so
    together they are one descent over `sz` (as in `scanRoots`); at `size ≤ rootsLen` the scan
    gives up ("couldn't find roots") without reading. -/
def scanReads (f : Bytes) : Nat → List Rd
  | 0 => []
  | sz+1 =>
    if sz + 1 ≤ rootsLen then []
    else if (readsAt f (sz + 1)).2 then (readsAt f (sz + 1)).1
    else (readsAt f (sz + 1)).1 ++ scanReads f sz

/-- the file calls `NewStore` makes on a file `f` (`readRoots`): `Stat`; if the size is positive,
    the backward scan from `size = |f|`. -/
def openReads (f : Bytes) : List Rd :=
  Rd.stat :: (if f.length = 0 then [] else scanReads f f.length)

/-- the reads of `itemLoc.read(withValue)` for an item record at `loc` with key length `kl` and
    value length `vl` (as stored in its header) when the item is not cached (or cached without its
    value and `withValue` is asked): header `[off, off+16)`, key `[off+16, off+16+kl)`, and only
    if `withValue` the value `[off+16+kl, off+16+kl+vl)` (`ItemValRead`).  When the item is cached
    with what is asked for, `itemLoc.read` issues no read at all. -/
def itemReads (loc : Ploc) (kl vl : Nat) (withValue : Bool) : List Rd :=
  [Rd.read loc.off itemHdrLen, Rd.read (loc.off + itemHdrLen) kl] ++
    (if withValue then [Rd.read (loc.off + itemHdrLen + kl) vl] else [])

/-- `nodeLoc.read`: one read of the 52-byte node record -/
def nodeReads (loc : Ploc) : List Rd := [Rd.read loc.off nodeRecLen]

/-- the value bytes of an item record: (start, length) -/
def valueRange (loc : Ploc) (kl vl : Nat) : Nat × Nat := (loc.off + itemHdrLen + kl, vl)

/-- a read overlaps a non-empty byte range `(start, length)`: they share at least one byte -/
def Rd.touches (r : Rd) (rng : Nat × Nat) : Prop :=
  match r with
  | .stat => False
  | .read off len => ∃ b, off ≤ b ∧ b < off + len ∧ rng.1 ≤ b ∧ b < rng.1 + rng.2

instance (r : Rd) (rng : Nat × Nat) : Decidable (r.touches rng) :=
  match r with
  | .stat => isFalse (fun h => h)
  | .read off len =>
    if h : max off rng.1 < min (off + len) (rng.1 + rng.2) then
      isTrue ⟨max off rng.1, by omega, by omega, by omega, by omega⟩
    else isFalse (fun ⟨b, h1, h2, h3, h4⟩ => h (by omega))

/-- what a lookup path does on the file in a given cache state: every node on the path that is not
    cached is read through `nodeReads`, every item on it that is not cached through `itemReads`
    (key only, or with the value at the end of `GetItem(withValue = true)`).  `cachedNode`/
    `cachedItem` say what is in memory. -/
structure Visit where
  nodeLoc : Ploc
  itemLoc : Ploc
  kl : Nat
  vl : Nat
  cachedNode : Bool
  cachedItem : Bool

/-- the reads of a key-only traversal over the given path, whatever is cached or evicted -/
def pathReads (p : List Visit) : List Rd :=
  p.flatMap fun v =>
    (if v.cachedNode then [] else nodeReads v.nodeLoc) ++
    (if v.cachedItem then [] else itemReads v.itemLoc v.kl v.vl false)

end Gkv.Lazy
