/-
Model H — the abstract version / mark / reclaim protocol of collection.go + alloc.go, one lineage
(= one `rootLock`).  Versions are numbered 0..N in publication order; nodes are `Nat` ids.

State: `refs v` (rootNodeLoc.refs), ghost `hp v` (handles + reader pins holding version v),
`chained v` (v holds one reference on v+1: rootCAS's chain), `tree v n` (node n is
cached-reachable in version v), `mark n` (node.next = &version.reclaimMark), `freed n`.

Events (all under the lineage's rootLock in Go):
  acquire v   rootAddRef: Snapshot, reader pin, SetCollection on an existing name
  release v   rootDecRef: handle close, unpin, RemoveCollection, Store.Close, FlushRevert's drops
  load p x    a lazily loaded node becomes reachable inside a shared node
  mutate R Rn New T   SetItem/Delete: R = nodes of the current tree marked with the current mark
              (markReclaimable), Rn = nodes moved to the new mark (reclaimMarkUpdate), New = fresh
              nodes of the new tree, T = fresh temporaries; then rootCAS (publish + chain when the
              old version is pinned) and the mutator's two rootDecRef calls (`dec` cascade)
  dec         rootDecRefUnlocked: at zero release the chained successor first, then — for a version
              that was never superseded (`v = N`) — mark its whole cached tree (markAllUnlocked),
              then free nodes carrying its mark (`F v` = which of them reclaimNodesUnlocked reaches)

`safe_reachable`: in every reachable state no node of a live version is on the free list.
This is the repaired protocol (commit "fix: closing a collection handle freed tree nodes ...");
with the pinned tree's closeCollection (mark at handle close) the `mutate` case is not provable —
see `Gkv/Props/C10.lean` for the concrete counterexample history.
-/
namespace Gkv.Versions
open Classical


structure St where
  N : Nat
  refs : Nat → Nat
  hp : Nat → Nat            -- ghost: handles + pins holding version v
  chained : Nat → Bool      -- v holds one reference on v+1
  tree : Nat → Nat → Prop   -- tree v n : node n is (cached-)reachable in version v
  mark : Nat → Option Nat
  freed : Nat → Prop

def chainIn (s : St) (v : Nat) : Nat := if v > 0 ∧ s.chained (v-1) = true then 1 else 0

structure HInv (s : St) : Prop where
  acct  : ∀ v, s.refs v = s.hp v + chainIn s v
  above : ∀ v, v > s.N → s.hp v = 0 ∧ s.chained v = false ∧ ∀ n, ¬ s.tree v n
  chN   : s.chained s.N = false
  live_chained : ∀ v, v < s.N → s.refs v > 0 → s.chained v = true
  chained_live : ∀ v, s.chained v = true → s.refs v > 0
  mark_le : ∀ n v w, s.mark n = some v → s.tree w n → w ≤ v
  safe  : ∀ w n, s.refs w > 0 → s.tree w n → ¬ s.freed n
  cur_unmarked : s.refs s.N > 0 → ∀ n, s.tree s.N n → s.mark n = none

noncomputable def markAt (s : St) (v : Nat) (n : Nat) : Option Nat :=
  if v = s.N ∧ s.tree v n ∧ s.mark n = none then some v else s.mark n

noncomputable def reclaim (s : St) (v : Nat) (F : Nat → Prop) : St :=
  { s with mark := markAt s v, freed := fun n => s.freed n ∨ (F n ∧ markAt s v n = some v) }

def kill (s : St) (v : Nat) : St :=
  { s with refs := fun w => if w = v then 0 else s.refs w,
           chained := fun w => if w = v then false else s.chained w }

noncomputable def dec (F : Nat → Nat → Prop) : Nat → St → Nat → St
  | 0, s, _ => s
  | fuel+1, s, v =>
    if s.refs v > 1 then { s with refs := fun w => if w = v then s.refs v - 1 else s.refs w }
    else
      let s2 := if s.chained v = true then dec F fuel (kill s v) (v+1) else kill s v
      reclaim s2 v (F v)

theorem dec_frame (F : Nat → Nat → Prop) : ∀ fuel s v,
    (dec F fuel s v).N = s.N ∧ (dec F fuel s v).tree = s.tree ∧ (dec F fuel s v).hp = s.hp ∧
    (∀ u, u < v → (dec F fuel s v).refs u = s.refs u) := by
  intro fuel
  induction fuel with
  | zero => intro s v; simp [dec]
  | succ fuel ih =>
    intro s v
    unfold dec
    by_cases hgt : s.refs v > 1
    · simp only [hgt, ↓reduceIte]
      refine ⟨by simp, by simp, by simp, ?_⟩
      intro u hu; have : u ≠ v := by omega
      simp [this]
    · simp only [hgt, ↓reduceIte]
      by_cases hc : s.chained v = true
      · simp only [hc, ↓reduceIte, reclaim]
        have := ih (kill s v) (v+1)
        refine ⟨this.1, this.2.1, this.2.2.1, ?_⟩
        intro u hu
        rw [this.2.2.2 u (by omega)]
        have : u ≠ v := by omega
        simp [kill, this]
      · simp only [hc, reclaim]
        refine ⟨by simp [kill], by simp [kill], by simp [kill], ?_⟩
        intro u hu; have : u ≠ v := by omega
        simp [kill, this]

/-- HInv except that refs v carries one extra (about-to-be-dropped) reference. -/
structure InvX (s : St) (v : Nat) : Prop where
  acct  : ∀ w, s.refs w = s.hp w + chainIn s w + (if w = v then 1 else 0)
  vle   : v ≤ s.N
  above : ∀ w, w > s.N → s.hp w = 0 ∧ s.chained w = false ∧ ∀ n, ¬ s.tree w n
  chN   : s.chained s.N = false
  live_chained : ∀ w, w < s.N → w ≠ v → s.refs w > 0 → s.chained w = true
  live_chained_v : v < s.N → s.refs v > 1 → s.chained v = true
  chained_live : ∀ w, s.chained w = true → w ≠ v → s.refs w > 0
  mark_le : ∀ n u w, s.mark n = some u → s.tree w n → w ≤ u
  safe  : ∀ w n, s.refs w > 0 → (w = v → s.refs v > 1) → s.tree w n → ¬ s.freed n
  lower_dead : s.refs v = 1 → ∀ u, u < v → s.refs u = 0
  cur_unmarked : s.refs s.N > 0 → (v = s.N → s.refs v > 1) → ∀ n, s.tree s.N n → s.mark n = none

theorem reclaim_inv (s : St) (v : Nat) (F : Nat → Prop) (h : HInv s)
    (hv : s.refs v = 0) (hlow : ∀ u, u < v → s.refs u = 0) : HInv (reclaim s v F) := by
  have hmk : ∀ n u w, markAt s v n = some u → s.tree w n → w ≤ u := by
    intro n u w hm ht
    unfold markAt at hm
    split at hm
    next hc =>
      cases hm
      by_cases hw : w > s.N
      · exact absurd ht ((h.above w hw).2.2 n)
      · omega
    next => exact h.mark_le n u w hm ht
  refine ⟨h.acct, h.above, h.chN, h.live_chained, h.chained_live, hmk, ?_, ?_⟩
  · intro w n hr ht hf
    rcases hf with hf | ⟨_, hm⟩
    · exact h.safe w n hr ht hf
    · have hle := hmk n v w hm ht
      have hr' : s.refs w > 0 := hr
      by_cases hwv : w = v
      · subst hwv; omega
      · have := hlow w (by omega); omega
  · intro hr n ht
    have hr' : s.refs s.N > 0 := hr
    have ht' : s.tree s.N n := ht
    show markAt s v n = none
    unfold markAt
    have hne : v ≠ s.N := by intro e; subst e; omega
    simp [hne]
    exact h.cur_unmarked hr' n ht'

section killlemmas
variable (s : St) (v : Nat)
@[simp] theorem kill_N : (kill s v).N = s.N := rfl
@[simp] theorem kill_hp : (kill s v).hp = s.hp := rfl
@[simp] theorem kill_tree : (kill s v).tree = s.tree := rfl
@[simp] theorem kill_mark : (kill s v).mark = s.mark := rfl
@[simp] theorem kill_freed : (kill s v).freed = s.freed := rfl
theorem kill_refs (w : Nat) : (kill s v).refs w = if w = v then 0 else s.refs w := rfl
theorem kill_ch (w : Nat) : (kill s v).chained w = if w = v then false else s.chained w := rfl
theorem kill_chainIn (w : Nat) (hw : w ≠ v + 1) : chainIn (kill s v) w = chainIn s w := by
  unfold chainIn
  by_cases h0 : w > 0
  · have : w - 1 ≠ v := by omega
    simp [kill_ch, this]
  · simp [h0]
end killlemmas

theorem dec_inv (F : Nat → Nat → Prop) : ∀ fuel s v, fuel + v > s.N → InvX s v → HInv (dec F fuel s v) := by
  intro fuel
  induction fuel with
  | zero => intro s v h hx; have := hx.vle; omega
  | succ fuel ih =>
    intro s v hf hx
    unfold dec
    by_cases hgt : s.refs v > 1
    · simp only [hgt, ↓reduceIte]
      refine ⟨?_, hx.above, hx.chN, ?_, ?_, hx.mark_le, ?_, ?_⟩
      rotate_right
      · intro hr n ht
        refine hx.cur_unmarked ?_ (fun _ => hgt) n ht
        by_cases h : s.N = v
        · rw [h]; omega
        · simpa [h] using hr
      · intro w
        have := hx.acct w
        by_cases hw : w = v
        · subst hw; simp [chainIn] at *; omega
        · simp [hw, chainIn] at *; omega
      · intro w hw hr
        by_cases hwv : w = v
        · subst hwv; exact hx.live_chained_v hw hgt
        · simp [hwv] at hr; exact hx.live_chained w hw hwv hr
      · intro w hc
        by_cases hwv : w = v
        · subst hwv; simp; omega
        · simp [hwv]; exact hx.chained_live w hc hwv
      · intro w n hr ht
        by_cases hwv : w = v
        · subst hwv; exact hx.safe w n (by omega) (fun _ => hgt) ht
        · simp [hwv] at hr; exact hx.safe w n hr (fun h => absurd h hwv) ht
    · simp only [hgt, ↓reduceIte]
      have hacv := hx.acct v
      simp at hacv
      have hr1 : s.refs v = 1 := by omega
      have hhp : s.hp v = 0 := by omega
      have hci : chainIn s v = 0 := by omega
      have hlow := hx.lower_dead hr1
      by_cases hc : s.chained v = true
      · simp only [hc, ↓reduceIte]
        have hvN : v < s.N := by
          by_cases h : v < s.N
          · exact h
          · by_cases h2 : v = s.N
            · rw [h2, hx.chN] at hc; cases hc
            · have := (hx.above v (by omega)).2.1; rw [this] at hc; cases hc
        have hX1 : InvX (kill s v) (v+1) := by
          refine ⟨?_, by simp; omega, ?_, ?_, ?_, ?_, ?_, ?_, ?_, ?_, ?_⟩
          rotate_right
          · intro hr _ n ht
            have hNv : s.N ≠ v := by omega
            rw [kill_N, kill_refs] at hr; simp [hNv] at hr
            have := hx.cur_unmarked hr (fun e => by omega) n (by simpa using ht)
            simpa using this
          · intro w
            by_cases hw : w = v + 1
            · subst hw
              have := hx.acct (v+1)
              have e1 : chainIn (kill s v) (v+1) = 0 := by simp [chainIn, kill_ch]
              have e2 : chainIn s (v+1) = 1 := by simp [chainIn, hc]
              simp [kill_refs] at *; omega
            · by_cases hwv : w = v
              · subst hwv; rw [kill_chainIn _ _ _ hw]; simp [kill_refs, hw, hhp, hci]
              · have := hx.acct w; rw [kill_chainIn _ _ _ hw]; simp [kill_refs, hw, hwv] at *; omega
          · intro w hw; simp at hw; have := hx.above w hw
            refine ⟨by simpa using this.1, ?_, by simpa using this.2.2⟩
            rw [kill_ch]; split <;> simp [this.2.1]
          · rw [kill_N, kill_ch]; split <;> simp [hx.chN]
          · intro w hw hwv hr
            simp at hw
            by_cases h : w = v
            · subst h; simp [kill_refs] at hr
            · rw [kill_refs] at hr; simp [h] at hr; rw [kill_ch]; simp [h]
              exact hx.live_chained w hw h hr
          · intro hlt hr
            simp at hlt; rw [kill_refs] at hr; simp at hr; rw [kill_ch]; simp
            exact hx.live_chained (v+1) hlt (by omega) (by omega)
          · intro w hcw hwv
            rw [kill_ch] at hcw
            by_cases h : w = v
            · subst h; simp at hcw
            · simp [h] at hcw; rw [kill_refs]; simp [h]; exact hx.chained_live w hcw h
          · intro n u w hm ht; exact hx.mark_le n u w (by simpa using hm) (by simpa using ht)
          · intro w n hr _ ht
            by_cases h : w = v
            · subst h; simp [kill_refs] at hr
            · rw [kill_refs] at hr; simp [h] at hr
              simpa using hx.safe w n hr (fun e => absurd e h) (by simpa using ht)
          · intro _ u hu
            by_cases h : u = v
            · subst h; simp [kill_refs]
            · rw [kill_refs]; simp [h]; exact hlow u (by omega)
        have hI2 := ih (kill s v) (v+1) (by simp; omega) hX1
        have fr := dec_frame F fuel (kill s v) (v+1)
        apply reclaim_inv _ _ _ hI2
        · rw [fr.2.2.2 v (by omega), kill_refs]; simp
        · intro u hu; rw [fr.2.2.2 u (by omega), kill_refs]
          have : u ≠ v := by omega
          simp [this]; exact hlow u hu
      · simp only [hc]
        have hcf : s.chained v = false := by cases h : s.chained v <;> simp_all
        have hI1 : HInv (kill s v) := by
          have cin : ∀ w, chainIn (kill s v) w = chainIn s w := by
            intro w
            by_cases hw : w = v + 1
            · subst hw; simp [chainIn, kill_ch, hcf]
            · exact kill_chainIn _ _ _ hw
          refine ⟨?_, ?_, ?_, ?_, ?_, ?_, ?_, ?_⟩
          rotate_right
          · intro hr n ht
            rw [kill_N, kill_refs] at hr
            by_cases hNv : s.N = v
            · simp [hNv] at hr
            · simp [hNv] at hr
              have := hx.cur_unmarked hr (fun e => absurd e.symm hNv) n (by simpa using ht)
              simpa using this
          · intro w; rw [cin]
            by_cases hwv : w = v
            · subst hwv; simp [kill_refs, hhp, hci]
            · have := hx.acct w; simp [kill_refs, hwv] at *; omega
          · intro w hw; simp at hw; have := hx.above w hw
            refine ⟨by simpa using this.1, ?_, by simpa using this.2.2⟩
            rw [kill_ch]; split <;> simp [this.2.1]
          · rw [kill_N, kill_ch]; split <;> simp [hx.chN]
          · intro w hw hr
            simp at hw
            by_cases h : w = v
            · subst h; simp [kill_refs] at hr
            · rw [kill_refs] at hr; simp [h] at hr; rw [kill_ch]; simp [h]
              exact hx.live_chained w hw h hr
          · intro w hcw
            rw [kill_ch] at hcw
            by_cases h : w = v
            · subst h; simp at hcw
            · simp [h] at hcw; rw [kill_refs]; simp [h]; exact hx.chained_live w hcw h
          · intro n u w hm ht; exact hx.mark_le n u w (by simpa using hm) (by simpa using ht)
          · intro w n hr ht
            by_cases h : w = v
            · subst h; simp [kill_refs] at hr
            · rw [kill_refs] at hr; simp [h] at hr
              simpa using hx.safe w n hr (fun e => absurd e h) (by simpa using ht)
        apply reclaim_inv _ _ _ hI1
        · rw [kill_refs]; simp
        · intro u hu; rw [kill_refs]
          have : u ≠ v := by omega
          simp [this]; exact hlow u hu


theorem chainIn_succ (s : St) (u : Nat) (h : s.chained u = true) : chainIn s (u+1) = 1 := by
  simp [chainIn, h]

theorem live_up {s : St} (h : HInv s) : ∀ d u, s.refs u > 0 → u + d ≤ s.N → s.refs (u+d) > 0 := by
  intro d
  induction d with
  | zero => intro u hu _; simpa using hu
  | succ d ih =>
    intro u hu hle
    have h1 := ih u hu (by omega)
    have hc := h.live_chained (u+d) (by omega) h1
    have := h.acct (u+d+1)
    rw [chainIn_succ s (u+d) hc] at this
    have e : u + (d+1) = u + d + 1 := by omega
    rw [e]; omega

theorem hp_le_N {s : St} (h : HInv s) (v : Nat) (hv : s.hp v > 0) : v ≤ s.N := by
  by_cases hgt : v > s.N
  · have := (h.above v hgt).1; omega
  · omega

/-- If some strictly older version is live then v has a chain-in reference. -/
theorem older_live_chainIn {s : St} (h : HInv s) (u v : Nat) (huv : u < v) (hv : v ≤ s.N)
    (hu : s.refs u > 0) : chainIn s v = 1 := by
  have h1 := live_up h (v - 1 - u) u hu (by omega)
  have e : u + (v - 1 - u) = v - 1 := by omega
  rw [e] at h1
  have hc := h.live_chained (v-1) (by omega) h1
  have := chainIn_succ s (v-1) hc
  have e2 : v - 1 + 1 = v := by omega
  rw [e2] at this; exact this

def dropHolder (s : St) (v : Nat) : St := { s with hp := fun w => if w = v then s.hp v - 1 else s.hp w }

/-- releasing a handle or a pin on v: ghost decrement puts us in the InvX precondition of dec -/
theorem release_pre {s : St} (h : HInv s) (v : Nat) (hv : s.hp v > 0) : InvX (dropHolder s v) v := by
  have hvN := hp_le_N h v hv
  have cin : ∀ w, chainIn (dropHolder s v) w = chainIn s w := fun w => rfl
  refine ⟨?_, hvN, ?_, h.chN, ?_, ?_, ?_, h.mark_le, ?_, ?_, ?_⟩
  · intro w; rw [cin]; have := h.acct w
    by_cases hw : w = v
    · subst hw; simp [dropHolder]; omega
    · simp [dropHolder, hw]; omega
  · intro w hw; have := h.above w hw
    refine ⟨?_, this.2.1, this.2.2⟩
    have : w ≠ v := by intro e; subst e; exact absurd hvN (by show ¬ w ≤ s.N; omega)
    simp [dropHolder, this]; exact (h.above w hw).1
  · intro w hw _ hr; exact h.live_chained w hw hr
  · intro hlt hr; exact h.live_chained v hlt (by show s.refs v > 0; have : s.refs v > 1 := hr; omega)
  · intro w hc _; exact h.chained_live w hc
  · intro w n hr _ ht; exact h.safe w n hr ht
  · intro hr1 u hu
    have hr1' : s.refs v = 1 := hr1
    show s.refs u = 0
    by_cases h0 : s.refs u = 0
    · exact h0
    · have := older_live_chainIn h u v hu hvN (by omega)
      have := h.acct v; omega
  · intro hr _ n ht; exact h.cur_unmarked hr n ht

noncomputable def release (F : Nat → Nat → Prop) (s : St) (v : Nat) : St :=
  dec F (s.N + 1) (dropHolder s v) v

theorem release_inv (F : Nat → Nat → Prop) {s : St} (h : HInv s) (v : Nat) (hv : s.hp v > 0) :
    HInv (release F s v) :=
  dec_inv F _ _ _ (by show s.N + 1 + v > s.N; omega) (release_pre h v hv)

/-- acquire: snapshot / SetCollection-existing / reader pin on a version that somebody already holds -/
def acquire (s : St) (v : Nat) : St :=
  { s with hp := fun w => if w = v then s.hp v + 1 else s.hp w,
           refs := fun w => if w = v then s.refs v + 1 else s.refs w }

theorem acquire_inv {s : St} (h : HInv s) (v : Nat) (hv : s.hp v > 0) : HInv (acquire s v) := by
  have hvN := hp_le_N h v hv
  have cin : ∀ w, chainIn (acquire s v) w = chainIn s w := fun w => rfl
  refine ⟨?_, ?_, h.chN, ?_, ?_, h.mark_le, ?_, ?_⟩
  · intro w; rw [cin]; have := h.acct w
    by_cases hw : w = v
    · subst hw; simp [acquire]; omega
    · simp [acquire, hw]; omega
  · intro w hw; have := h.above w hw
    refine ⟨?_, this.2.1, this.2.2⟩
    have hne : w ≠ v := by intro e; subst e; exact absurd hvN (by show ¬ w ≤ s.N; omega)
    simp [acquire, hne]; exact this.1
  · intro w hw hr
    apply h.live_chained w hw
    by_cases e : w = v
    · subst e; have := h.acct w; omega
    · simpa [acquire, e] using hr
  · intro w hc; have := h.chained_live w hc
    by_cases e : w = v
    · subst e; simp [acquire]
    · simp [acquire, e]; exact this
  · intro w n hr ht
    apply h.safe w n _ ht
    by_cases e : w = v
    · subst e; have := h.acct w; omega
    · simpa [acquire, e] using hr
  · intro hr n ht
    apply h.cur_unmarked _ n ht
    by_cases e : s.N = v
    · rw [e]; have := h.acct v; omega
    · simpa [acquire, e] using hr

/-- lazy load: a fresh node x appears below p in every version that contains p -/
def load (s : St) (p x : Nat) : St :=
  { s with tree := fun w n => s.tree w n ∨ (n = x ∧ s.tree w p) }

theorem load_inv {s : St} (h : HInv s) (p x : Nat)
    (fresh_mark : s.mark x = none) (fresh_free : ¬ s.freed x) : HInv (load s p x) := by
  refine ⟨h.acct, ?_, h.chN, h.live_chained, h.chained_live, ?_, ?_, ?_⟩
  · intro w hw; have := h.above w hw
    refine ⟨this.1, this.2.1, ?_⟩
    intro n hn
    rcases hn with hn | ⟨_, hp⟩
    · exact this.2.2 n hn
    · exact this.2.2 p hp
  · intro n v w hm ht
    rcases ht with ht | ⟨e, _⟩
    · exact h.mark_le n v w hm ht
    · subst e; change s.mark n = some v at hm; rw [fresh_mark] at hm; cases hm
  · intro w n hr ht
    rcases ht with ht | ⟨e, _⟩
    · exact h.safe w n hr ht
    · subst e; exact fresh_free
  · intro hr n ht
    rcases ht with ht | ⟨e, _⟩
    · exact h.cur_unmarked hr n ht
    · subst e; exact fresh_mark


/-- The state after SetItem/Delete has rebuilt the tree, published N+1 by rootCAS (chaining N when it is
    still in use), dropped the mutating handle's reference on N, and is about to drop the pin on N.
    R  : nodes of tree N replaced and marked with N's mark
    Rn : nodes of tree N replaced and (Delete) moved to the new version's mark
    New: fresh nodes of the new tree;  T: fresh temporaries (marked with the new version's mark). -/
noncomputable def publish (s : St) (R Rn New T : Nat → Prop) : St :=
  let N := s.N
  let ch : Bool := decide (s.hp N + chainIn s N ≥ 2)
  { N := N + 1
    refs := fun w => if w = N + 1 then 1 + (if ch then 1 else 0) else if w = N then s.refs N else s.refs w
    hp := fun w => if w = N + 1 then 1 else if w = N then s.hp N - 1 else s.hp w
    chained := fun w => if w = N then ch else s.chained w
    tree := fun w n => if w = N + 1 then (s.tree N n ∧ ¬ R n ∧ ¬ Rn n) ∨ New n else s.tree w n
    mark := fun n => if R n then some N else if Rn n ∨ T n then some (N+1) else s.mark n
    freed := s.freed }

structure MutPre (s : St) (R Rn New T : Nat → Prop) : Prop where
  holder : s.hp s.N > 0
  R_sub  : ∀ n, R n → s.tree s.N n
  Rn_sub : ∀ n, Rn n → s.tree s.N n
  New_fresh : ∀ n, New n → (∀ w, ¬ s.tree w n) ∧ s.mark n = none ∧ ¬ s.freed n ∧ ¬ R n ∧ ¬ Rn n ∧ ¬ T n
  T_fresh   : ∀ n, T n → (∀ w, ¬ s.tree w n)

theorem publish_pre {s : St} (h : HInv s) {R Rn New T : Nat → Prop} (m : MutPre s R Rn New T) :
    InvX (publish s R Rn New T) s.N := by
  have hN := m.holder
  have hrefsN := h.acct s.N
  have hlive : s.refs s.N > 0 := by omega
  have unm := h.cur_unmarked hlive
  have hch : ∀ w, (publish s R Rn New T).chained w =
      if w = s.N then decide (s.hp s.N + chainIn s s.N ≥ 2) else s.chained w := fun w => rfl
  have cin_lt : ∀ w, w ≤ s.N → chainIn (publish s R Rn New T) w = chainIn s w := by
    intro w hw
    unfold chainIn
    by_cases h0 : w > 0
    · have : w - 1 ≠ s.N := by omega
      simp [hch, this]
    · simp [h0]
  have aboveN1 := (h.above (s.N + 1) (by omega))
  refine ⟨?_, by show s.N ≤ s.N + 1; omega, ?_, ?_, ?_, ?_, ?_, ?_, ?_, ?_, ?_⟩
  · -- accounting
    intro w
    by_cases h1 : w = s.N + 1
    · subst h1
      have : chainIn (publish s R Rn New T) (s.N + 1) = if decide (s.hp s.N + chainIn s s.N ≥ 2) then 1 else 0 := by
        simp [chainIn, hch]
      rw [this]
      simp [publish]
    · by_cases h2 : w = s.N
      · subst h2; rw [cin_lt _ (Nat.le_refl _)]; simp [publish]; omega
      · by_cases h3 : w < s.N
        · rw [cin_lt w (by omega)]; have := h.acct w; simp [publish, h1, h2]; omega
        · have hw : w > s.N + 1 := by omega
          have ab := h.above w (by omega)
          have ab1 := h.above (w-1) (by omega)
          have : chainIn (publish s R Rn New T) w = 0 := by
            unfold chainIn
            have : w - 1 ≠ s.N := by omega
            simp [hch, this, ab1.2.1]
          rw [this]
          have := h.acct w
          have c0 : chainIn s w = 0 := by simp [chainIn, ab1.2.1]
          simp [publish, h1, h2]; omega
  · -- above
    intro w hw
    have hw' : w > s.N + 1 := hw
    have ab := h.above w (by omega)
    have h1 : w ≠ s.N + 1 := by omega
    have h2 : w ≠ s.N := by omega
    refine ⟨by simp [publish, h1, h2]; exact ab.1, by rw [hch]; simp [h2]; exact ab.2.1, ?_⟩
    intro n; simp [publish, h1]; exact ab.2.2 n
  · -- chained (N+1) = false
    show (publish s R Rn New T).chained (s.N + 1) = false
    rw [hch]; simp; exact aboveN1.2.1
  · -- live_chained for w ≠ N, w < N+1
    intro w hw hne hr
    have hw' : w < s.N + 1 := hw
    have h1 : w ≠ s.N + 1 := by omega
    have hr' : s.refs w > 0 := by simpa [publish, h1, hne] using hr
    rw [hch]; simp [hne]; exact h.live_chained w (by omega) hr'
  · -- live_chained_v : refs N > 1 → chained N
    intro _ hr
    have hr' : s.refs s.N > 1 := by simpa [publish] using hr
    rw [hch]; simp; omega
  · -- chained_live (w ≠ N)
    intro w hc hne
    rw [hch] at hc; simp [hne] at hc
    have := h.chained_live w hc
    have hwN : w < s.N := by
      by_cases hlt : w < s.N
      · exact hlt
      · have := (h.above w (by omega)).2.1; rw [this] at hc; cases hc
    have h1 : w ≠ s.N + 1 := by omega
    simp [publish, h1, hne]; exact this
  · -- mark_le
    intro n u w hm ht
    have htw : w ≤ s.N + 1 := by
      by_cases hgt : w > s.N + 1
      · have h1 : w ≠ s.N + 1 := by omega
        have : s.tree w n := by simpa [publish, h1] using ht
        exact absurd this ((h.above w (by omega)).2.2 n)
      · omega
    by_cases hR : R n
    · have : u = s.N := by simp [publish, hR] at hm; omega
      subst this
      by_cases h1 : w = s.N + 1
      · subst h1
        have : (s.tree s.N n ∧ ¬ R n ∧ ¬ Rn n) ∨ New n := by simpa [publish] using ht
        rcases this with ⟨_, hnr, _⟩ | hnew
        · exact absurd hR hnr
        · exact absurd hR (m.New_fresh n hnew).2.2.2.1
      · omega
    · by_cases hRT : Rn n ∨ T n
      · have : u = s.N + 1 := by simp [publish, hR, hRT] at hm; omega
        omega
      · have hm' : s.mark n = some u := by simpa [publish, hR, hRT] using hm
        by_cases h1 : w = s.N + 1
        · subst h1
          have : (s.tree s.N n ∧ ¬ R n ∧ ¬ Rn n) ∨ New n := by simpa [publish] using ht
          rcases this with ⟨htN, _, _⟩ | hnew
          · rw [unm n htN] at hm'; cases hm'
          · rw [(m.New_fresh n hnew).2.1] at hm'; cases hm'
        · have : s.tree w n := by simpa [publish, h1] using ht
          exact h.mark_le n u w hm' this
  · -- safe
    intro w n hr _ ht
    show ¬ s.freed n
    by_cases h1 : w = s.N + 1
    · subst h1
      have : (s.tree s.N n ∧ ¬ R n ∧ ¬ Rn n) ∨ New n := by simpa [publish] using ht
      rcases this with ⟨htN, _, _⟩ | hnew
      · exact h.safe s.N n hlive htN
      · exact (m.New_fresh n hnew).2.2.1
    · have ht' : s.tree w n := by simpa [publish, h1] using ht
      by_cases h2 : w = s.N
      · subst h2; exact h.safe _ n hlive ht'
      · have hr' : s.refs w > 0 := by simpa [publish, h1, h2] using hr
        exact h.safe w n hr' ht'
  · -- lower_dead
    intro hr1 u hu
    have hr1' : s.refs s.N = 1 := by simpa [publish] using hr1
    have h1 : u ≠ s.N + 1 := by omega
    have h2 : u ≠ s.N := by omega
    show (publish s R Rn New T).refs u = 0
    simp [publish, h1, h2]
    by_cases h0 : s.refs u = 0
    · exact h0
    · have := older_live_chainIn h u s.N hu (Nat.le_refl _) (by omega)
      omega
  · -- new current version is unmarked
    intro _ _ n ht
    have : (s.tree s.N n ∧ ¬ R n ∧ ¬ Rn n) ∨ New n := by simpa [publish] using ht
    rcases this with ⟨htN, hnr, hnrn⟩ | hnew
    · have hT : ¬ T n := fun hT => (m.T_fresh n hT) s.N htN
      simp [publish, hnr, hnrn, hT]; exact unm n htN
    · have f := m.New_fresh n hnew
      simp [publish, f.2.2.2.1, f.2.2.2.2.1, f.2.2.2.2.2]; exact f.2.1

noncomputable def mutate (F : Nat → Nat → Prop) (s : St) (R Rn New T : Nat → Prop) : St :=
  dec F (s.N + 2) (publish s R Rn New T) s.N

theorem mutate_inv (F : Nat → Nat → Prop) {s : St} (h : HInv s) {R Rn New T : Nat → Prop}
    (m : MutPre s R Rn New T) : HInv (mutate F s R Rn New T) :=
  dec_inv F _ _ _ (by show s.N + 2 + s.N > s.N + 1; omega) (publish_pre h m)

/-- reachable states of the protocol -/
inductive Reach (F : Nat → Nat → Prop) : St → Prop
  | init (hp0 : Nat) : Reach F
      { N := 0, refs := fun w => if w = 0 then 1 else 0, hp := fun w => if w = 0 then 1 else 0,
        chained := fun _ => false, tree := fun _ _ => False, mark := fun _ => none, freed := fun _ => False }
  | acquire {s v} : Reach F s → s.hp v > 0 → Reach F (acquire s v)
  | release {s v} : Reach F s → s.hp v > 0 → Reach F (release F s v)
  | load {s p x} : Reach F s → s.mark x = none → ¬ s.freed x → Reach F (load s p x)
  | mutate {s R Rn New T} : Reach F s → MutPre s R Rn New T → Reach F (mutate F s R Rn New T)

theorem reach_inv (F : Nat → Nat → Prop) : ∀ s, Reach F s → HInv s := by
  intro s hr
  induction hr with
  | init _ =>
    refine ⟨?_, ?_, rfl, ?_, ?_, ?_, ?_, ?_⟩
    · intro v; simp [chainIn]
    · intro v hv; have : v ≠ 0 := by simp at hv; omega
      simp [this]
    · intro v hv; simp at hv
    · intro v hc; simp at hc
    · intro n v w hm; simp at hm
    · intro w n _ ht; simp at ht
    · intro _ n ht; simp at ht
  | acquire _ hv ih => exact acquire_inv ih _ hv
  | release _ hv ih => exact release_inv F ih _ hv
  | load _ hm hf ih => exact load_inv ih _ _ hm hf
  | mutate _ m ih => exact mutate_inv F ih m

/-- Safety: in every reachable state no node of a live version has been freed. -/
theorem safe_reachable (F : Nat → Nat → Prop) (s : St) (hr : Reach F s) :
    ∀ w n, s.refs w > 0 → s.tree w n → ¬ s.freed n := (reach_inv F s hr).safe


end Gkv.Versions
