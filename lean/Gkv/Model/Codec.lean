/-
Model B, part 1 — the version-4 file format, written from the format description (property C14),
not from the Go encoder: big-endian integers, plocs, item records, node records, root records
and the JSON map of root locations, with strict decoders for all of them.

A file is a `List UInt8`.  `readAt`/`writeAt` are `StoreFile.ReadAt`/`WriteAt` on it.
-/
import Gkv.Model.Treap
open Std

namespace Gkv

/-! ### files -/

/-- `ReadAt(buf[len], off)`: `none` when the range is not wholly inside the file (io.EOF). -/
def readAt (f : Bytes) (off len : Nat) : Option Bytes :=
  if off + len ≤ f.length then some ((f.drop off).take len) else none

/-- `WriteAt(b, off)` with `off ≤ |f|` (gkvlite never writes beyond the end): overwrite/extend. -/
def writeAt (f : Bytes) (off : Nat) (b : Bytes) : Bytes :=
  f.take off ++ b ++ f.drop (off + b.length)

/-! ### big-endian integers -/

/-- `w` bytes, big-endian, of `n mod 256^w` -/
def be : Nat → Nat → Bytes
  | 0, _ => []
  | w+1, n => be w (n / 256) ++ [UInt8.ofNat (n % 256)]

/-- big-endian value of a byte string -/
def unbe (b : Bytes) : Nat := b.foldl (fun acc x => acc * 256 + x.toNat) 0

/-! ### constants of the format (checked against the regenerated `Gen.Consts`) -/

/-- "0g1t2r" -/
def magicBeg : Bytes := [48, 103, 49, 116, 50, 114]
/-- "3e4a5p" -/
def magicEnd : Bytes := [51, 101, 52, 97, 53, 112]
def fmtVersion : Nat := 4
def plocLen : Nat := 12
def itemHdrLen : Nat := 16
def nodeRecLen : Nat := 52
def rootsEndLen : Nat := 24
def rootsLen : Nat := 44

/-! ### plocs -/

/-- 12 bytes: u64 offset, u32 length; an absent location is all zero -/
def encPloc : Option Ploc → Bytes
  | none => be 8 0 ++ be 4 0
  | some p => be 8 p.off ++ be 4 p.len

/-- decode 12 bytes; the all-zero ploc is "empty" (`ploc.read` returns nil) -/
def decPloc (b : Bytes) : Option Ploc :=
  let off := unbe (b.take 8)
  let len := unbe ((b.drop 8).take 4)
  if off = 0 ∧ len = 0 then none else some ⟨off, len⟩

/-! ### item records: u32 total, u32 keyLen, u32 valLen, i32 priority, key, value -/

def encItemHdrKey (i : Item) : Bytes :=
  be 4 (itemHdrLen + i.key.length + i.val.length) ++ be 4 i.key.length ++ be 4 i.val.length ++
    be 4 i.prio ++ i.key

def encItem (i : Item) : Bytes := encItemHdrKey i ++ i.val

def itemRecLen (i : Item) : Nat := itemHdrLen + i.key.length + i.val.length

/-- `itemLoc.read(withValue = true)` at a location: header, checks, key, value -/
def decItem (f : Bytes) (loc : Ploc) : Option Item := do
  if loc.len < itemHdrLen then none
  let h ← readAt f loc.off itemHdrLen
  let total := unbe (h.take 4)
  let kl := unbe ((h.drop 4).take 4)
  let vl := unbe ((h.drop 8).take 4)
  let pr := unbe ((h.drop 12).take 4)
  if total ≠ (itemHdrLen + kl + vl) % 4294967296 then none
  let k ← readAt f (loc.off + itemHdrLen) kl
  let v ← readAt f (loc.off + itemHdrLen + kl) vl
  some ⟨k, v, pr⟩

/-! ### node records: item ploc, left ploc, right ploc, u64 numNodes, u64 numBytes -/

structure NodeRec where
  item : Option Ploc
  left : Option Ploc
  right : Option Ploc
  nn : Nat
  nb : Nat
deriving DecidableEq, Repr

def encNode (n : NodeRec) : Bytes :=
  encPloc n.item ++ encPloc n.left ++ encPloc n.right ++ be 8 n.nn ++ be 8 n.nb

def decNodeBytes (b : Bytes) : NodeRec :=
  { item := decPloc (b.take 12), left := decPloc ((b.drop 12).take 12),
    right := decPloc ((b.drop 24).take 12),
    nn := unbe ((b.drop 36).take 8), nb := unbe ((b.drop 44).take 8) }

/-- `nodeLoc.read` at a location -/
def decNode (f : Bytes) (loc : Ploc) : Option NodeRec := do
  if loc.len ≠ nodeRecLen then none
  let b ← readAt f loc.off nodeRecLen
  some (decNodeBytes b)

/-- location stored in the slot that points at `t` (`nodeLoc.Loc()`) -/
def Tree.slotLoc : Tree → Option Ploc
  | .nil => none
  | .node _ _ _ _ _ p _ => p

/-- lazily loading a whole subtree: what every reader would eventually see.  `fuel` bounds the
    depth (a forged cyclic file makes Go recurse for ever; files written by Flush never need more
    than their length). -/
def loadTree (f : Bytes) : Nat → Option Ploc → Option Tree
  | _, none => some .nil
  | 0, some _ => none
  | fuel+1, some loc => do
    let n ← decNode f loc
    let il ← n.item
    let it ← decItem f il
    let l ← loadTree f fuel n.left
    let r ← loadTree f fuel n.right
    some (.node l it n.nn n.nb r (some loc) (some il))

/-! ### the JSON map of root locations, as `encoding/json` renders `map[string]*rootNodeLoc` -/

def hexDigit (n : Nat) : UInt8 :=
  if n < 10 then UInt8.ofNat (48 + n) else UInt8.ofNat (87 + n)

/-- decimal digits of `n` (what `strconv`/`encoding/json` print for an integer) -/
def natDigits (n : Nat) : Bytes :=
  if h : n < 10 then [UInt8.ofNat (48 + n)]
  else natDigits (n / 10) ++ [UInt8.ofNat (48 + n % 10)]
decreasing_by omega

/-- `\u00XX` -/
def u00 (c : UInt8) : Bytes :=
  [92, 117, 48, 48, hexDigit (c.toNat / 16), hexDigit (c.toNat % 16)]

/-- Go's string escaping (HTML-safe mode, Go ≥ 1.22) of a valid UTF-8 byte string -/
def jsonEscape : Bytes → Bytes
  | [] => []
  | 0xE2 :: 0x80 :: 0xA8 :: rest => [92, 117, 50, 48, 50, 56] ++ jsonEscape rest   -- \u2028
  | 0xE2 :: 0x80 :: 0xA9 :: rest => [92, 117, 50, 48, 50, 57] ++ jsonEscape rest   -- \u2029
  | c :: rest =>
    (if c = 34 then [92, 34]
     else if c = 92 then [92, 92]
     else if c = 8 then [92, 98]
     else if c = 12 then [92, 102]
     else if c = 10 then [92, 110]
     else if c = 13 then [92, 114]
     else if c = 9 then [92, 116]
     else if c < 32 ∨ c = 60 ∨ c = 62 ∨ c = 38 then u00 c
     else [c]) ++ jsonEscape rest

/-- `{"o":` -/
def jsonO : Bytes := [123, 34, 111, 34, 58]
/-- `,"l":` -/
def jsonL : Bytes := [44, 34, 108, 34, 58]

def jsonPloc (p : Option Ploc) : Bytes :=
  let p' := p.getD ⟨0, 0⟩
  jsonO ++ natDigits p'.off ++ jsonL ++ natDigits p'.len ++ [125]

def jsonEntry (e : Bytes × Option Ploc) : Bytes :=
  [34] ++ jsonEscape e.1 ++ [34, 58] ++ jsonPloc e.2

def jsonEntries : List (Bytes × Option Ploc) → Bytes
  | [] => []
  | [e] => jsonEntry e
  | e :: rest => jsonEntry e ++ [44] ++ jsonEntries rest

/-- entries are given in sorted name order -/
def encJson (es : List (Bytes × Option Ploc)) : Bytes := [123] ++ jsonEntries es ++ [125]

/-! strict parser for exactly that output -/

def unhex (c : UInt8) : Option Nat :=
  if 48 ≤ c ∧ c ≤ 57 then some (c.toNat - 48)
  else if 97 ≤ c ∧ c ≤ 102 then some (c.toNat - 87)
  else if 65 ≤ c ∧ c ≤ 70 then some (c.toNat - 55)
  else none

/-- UTF-8 of a BMP code point (no surrogates) -/
def utf8 (n : Nat) : Bytes :=
  if n < 0x80 then [UInt8.ofNat n]
  else if n < 0x800 then [UInt8.ofNat (0xC0 + n / 64), UInt8.ofNat (0x80 + n % 64)]
  else [UInt8.ofNat (0xE0 + n / 4096), UInt8.ofNat (0x80 + n / 64 % 64), UInt8.ofNat (0x80 + n % 64)]

/-- parse the inside of a JSON string up to the closing quote; returns (string, rest after quote) -/
def parseStr : Nat → Bytes → Bytes → Option (Bytes × Bytes)
  | 0, _, _ => none
  | _+1, _, [] => none
  | fuel+1, acc, c :: rest =>
    if c = 34 then some (acc.reverse, rest)
    else if c = 92 then
      match rest with
      | 117 :: a :: b :: c' :: d :: rest' => do
        let n := (← unhex a) * 4096 + (← unhex b) * 256 + (← unhex c') * 16 + (← unhex d)
        parseStr fuel ((utf8 n).reverse ++ acc) rest'
      | e :: rest' =>
        let x : Option UInt8 :=
          if e = 34 then some 34 else if e = 92 then some 92 else if e = 47 then some 47
          else if e = 98 then some 8 else if e = 102 then some 12 else if e = 110 then some 10
          else if e = 114 then some 13 else if e = 116 then some 9 else none
        match x with
        | some y => parseStr fuel (y :: acc) rest'
        | none => none
      | [] => none
    else parseStr fuel (c :: acc) rest

def parseNat : Bytes → Nat × Bytes × Nat
  | b =>
    let ds := b.takeWhile (fun c => 48 ≤ c ∧ c ≤ 57)
    (ds.foldl (fun acc c => acc * 10 + (c.toNat - 48)) 0, b.drop ds.length, ds.length)

def expect (pre : Bytes) (b : Bytes) : Option Bytes :=
  if pre.isPrefixOf b then some (b.drop pre.length) else none

def parsePloc (b : Bytes) : Option (Option Ploc × Bytes) := do
  let b ← expect jsonO b
  let (o, b, n1) := parseNat b
  if n1 = 0 then none
  let b ← expect jsonL b
  let (l, b, n2) := parseNat b
  if n2 = 0 then none
  let b ← expect [125] b
  some ((if o = 0 ∧ l = 0 then none else some ⟨o, l⟩), b)

def parseEntries : Nat → Bytes → List (Bytes × Option Ploc) → Option (List (Bytes × Option Ploc))
  | 0, _, _ => none
  | fuel+1, b, acc => do
    let b ← expect [34] b
    let (name, b) ← parseStr (b.length + 1) [] b
    let b ← expect [58] b
    let (p, b) ← parsePloc b
    match b with
    | [125] => some ((name, p) :: acc).reverse
    | 44 :: b' => parseEntries fuel b' ((name, p) :: acc)
    | _ => none

def decJson (b : Bytes) : Option (List (Bytes × Option Ploc)) :=
  match b with
  | [123, 125] => some []
  | 123 :: rest => parseEntries (rest.length + 1) rest []
  | _ => none

/-! ### root records -/

/-- the root record appended at file offset `off` -/
def encRoot (off : Nat) (es : List (Bytes × Option Ploc)) : Bytes :=
  let js := encJson es
  let len := rootsLen + js.length
  magicBeg ++ magicBeg ++ be 4 fmtVersion ++ be 4 len ++ js ++ be 8 off ++ be 4 len ++
    magicEnd ++ magicEnd

/-- Is there a complete, self-consistent root record ending at offset `e`?  Mirrors
    `scanBackwardsForMagicEnd` (the magic test), `readRootsEnd`, `checkAndReadRoots` and
    `validateAndSetCollections`.  It only inspects bytes below `e`. -/
def rootAt (f : Bytes) (e : Nat) : Option (List (Bytes × Option Ploc)) := do
  if e ≤ rootsLen then none
  let tail ← readAt f (e - rootsEndLen) rootsEndLen
  if (tail.drop 12).take 6 ≠ magicEnd ∨ tail.drop 18 ≠ magicEnd then none
  let off := unbe (tail.take 8)
  let len := unbe ((tail.drop 8).take 4)
  if ¬ (off < 9223372036854775808 ∧ off + rootsLen < e ∧ len = (e - off) % 4294967296) then none
  let data ← readAt f off (e - off - rootsEndLen)
  if data.take 6 ≠ magicBeg ∨ (data.drop 6).take 6 ≠ magicBeg then none
  let ver := unbe ((data.drop 12).take 4)
  let len0 := unbe ((data.drop 16).take 4)
  if ver ≠ fmtVersion ∨ len0 ≠ len then none
  decJson (data.drop 20)

end Gkv

namespace Gkv
-- the literal byte lists above are the UTF-8 of the strings they stand for (evaluated checks)
#guard magicBeg == "0g1t2r".toUTF8.toList
#guard magicEnd == "3e4a5p".toUTF8.toList
#guard jsonO == "{\"o\":".toUTF8.toList
#guard jsonL == ",\"l\":".toUTF8.toList
#guard natDigits 0 == "0".toUTF8.toList && natDigits 1234567890 == "1234567890".toUTF8.toList
#guard jsonEscape [0xE2, 0x80, 0xA8, 34] == "\\u2028\\\"".toUTF8.toList
end Gkv
