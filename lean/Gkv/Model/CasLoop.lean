/-
Model CasLoop — the optimistic compare-and-swap update loop of gkvlite's store.go
(`SetCollection`, `RemoveCollection`), property C12:

    for { orig := s.getColl(); coll := copy(*orig); <modify coll>;
          if s.casColl(orig, &coll) { return } }

The shared cell `s.coll` is a pointer to an immutable map.  A pointer is modelled by a version id
`ver : Nat` (every successful publish installs a freshly allocated map, hence a fresh pointer, hence
`ver + 1`), the map it points to by an abstract value `val : α`.

Updates are drawn from an index type `ι` and interpreted by `apply : ι → α → α` (functions are not
comparable; indices are, so that the ghost log can be inspected and decided).  Thread `t` has a
program `pending : List ι` and a local state: `idle` (about to call `getColl`) or `read ver v` (it
holds the snapshot pointer `ver` and its content `v`, from which the private copy is built).

One atomic step of thread `t` with head update `i`:
  doRead  `idle`        ↦ `read cell.ver cell.val`
  doCas   `read ver v`  ↦ if `cell.ver = ver` then `cell := ⟨cell.ver + 1, apply i v⟩`, pop `i`, log
                          `(t, i)`, go `idle`; else go `idle` WITHOUT popping (retry).
`buggy = true` is the seeded variant C12b, `s.casColl(s.getColl(), &coll)`: the comparison is made
against whatever is current at CAS time, i.e. it is skipped, and `apply i v` is published from the
possibly stale snapshot `v`.

A schedule is an arbitrary `List Nat` of thread ids; a step of an unknown thread id or of a thread
with nothing left to do is a no-op.  `log` is ghost state: the successful publishes, oldest first.
-/
namespace Gkv.CasLoop

/-- the shared cell: pointer identity (`ver`) and the immutable value it points to -/
structure Cell (α : Type) where
  ver : Nat
  val : α
deriving Repr, DecidableEq

/-- local state of a thread inside the retry loop -/
inductive Local (α : Type) where
  | idle
  | read (ver : Nat) (v : α)
deriving Repr, DecidableEq

structure Thread (ι α : Type) where
  pending : List ι
  loc : Local α
deriving Repr, DecidableEq

structure State (ι α : Type) where
  cell : Cell α
  threads : List (Thread ι α)
  /-- ghost: successful publishes `(thread, update)`, oldest first -/
  log : List (Nat × ι)
deriving Repr, DecidableEq

variable {ι α : Type}

/-- all threads idle at the top of their loop, nothing published yet -/
def init (a : α) (progs : List (List ι)) : State ι α :=
  { cell := ⟨0, a⟩, threads := progs.map (fun p => ⟨p, .idle⟩), log := [] }

/-- one atomic step of thread `t` -/
def step (buggy : Bool) (apply : ι → α → α) (s : State ι α) (t : Nat) : State ι α :=
  match s.threads[t]? with
  | none => s
  | some th =>
    match th.pending with
    | [] => s
    | i :: rest =>
      match th.loc with
      | .idle =>
        { s with threads := s.threads.set t { th with loc := .read s.cell.ver s.cell.val } }
      | .read ver v =>
        if buggy = true ∨ s.cell.ver = ver then
          { cell := ⟨s.cell.ver + 1, apply i v⟩
            threads := s.threads.set t ⟨rest, .idle⟩
            log := s.log ++ [(t, i)] }
        else
          { s with threads := s.threads.set t { th with loc := .idle } }

def run (buggy : Bool) (apply : ι → α → α) (s : State ι α) (sched : List Nat) : State ι α :=
  sched.foldl (step buggy apply) s

/-- the updates `is`, applied left to right to `a` -/
def applyAll (apply : ι → α → α) (is : List ι) (a : α) : α :=
  is.foldl (fun a i => apply i a) a

/-- the published updates in publication order -/
def State.published (s : State ι α) : List ι := s.log.map Prod.snd

/-- the published updates of thread `t`, in publication order -/
def State.publishedBy (s : State ι α) (t : Nat) : List ι :=
  (s.log.filter (fun e => e.1 == t)).map Prod.snd

/-- the updates thread `t` has not yet published (`[]` for an unknown thread id) -/
def pendingAt (ths : List (Thread ι α)) (t : Nat) : List ι :=
  match ths[t]? with
  | some th => th.pending
  | none => []

def State.pendingOf (s : State ι α) (t : Nat) : List ι := pendingAt s.threads t

/-- every thread has published its whole program -/
def State.done (s : State ι α) : Prop := ∀ t, s.pendingOf t = []

/-- the program of thread `t` (`[]` for an unknown thread id) -/
def progOf (progs : List (List ι)) (t : Nat) : List ι := progs[t]?.getD []

end Gkv.CasLoop
