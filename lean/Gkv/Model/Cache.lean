/-
Model L — the lazily loaded, evictable in-memory view of a persisted tree (properties C01, C19).

Model B (`Store.lean`) has no cache state: a collection is its whole abstract `Tree`.  The Go code
never holds that value: every `nodeLoc` is (location, maybe a cached `*node`), every `itemLoc` is
(location, maybe a cached `*Item`, which may have been loaded without its value), readers fill
those caches on their way down (`nodeLoc.read`, `itemLoc.read`), `node.Evict` empties them again.
This file models exactly that state and those functions, with the file reads they issue, so that
"what is cached never changes an answer" and "key-only operations read no value" are theorems
about the traversal itself (`Proofs/Cache.lean`) rather than assumptions of Model B.

Go sources mirrored: node.go `nodeLoc.read`, `populateNode`, `node.Evict`; item.go `itemLoc.read`;
collection.go `GetItem`, `evictSomeItems`; treap.go `walk` (`MinItem`/`MaxItem`).
Not modelled here: faults (C07's model), the mutators (they are Model A on the abstract tree;
what they load is checked by the correspondence only), `visitNodes`' in-visit eviction.
-/
import Gkv.Model.Lazy
open Std

namespace Gkv.Cache
open Gkv Gkv.Lazy

/-- an `itemLoc`: location and/or cached item -/
inductive CItem
  | stub (loc : Ploc)                                  -- on file, nothing cached
  | keyOnly (key : Bytes) (prio : Nat) (loc : Ploc)    -- loaded with `withValue = false`: `Val == nil`
  | full (i : Item) (loc : Option Ploc)                -- cached with its value (dirty when `loc = none`)
deriving DecidableEq, Repr, Inhabited

/-- a `nodeLoc` and, when the node is cached, what hangs below it -/
inductive CTree
  | nil                                                -- the empty slot
  | stub (loc : Ploc)                                  -- on file, node not cached
  | node (l : CTree) (it : CItem) (nn nb : Nat) (r : CTree) (loc : Option Ploc)
deriving DecidableEq, Repr, Inhabited

/-- what a caller gets to see of an item: key, priority and — if it is in memory — the value -/
structure Found where
  key : Bytes
  prio : Nat
  val : Option Bytes
deriving DecidableEq, Repr

def CItem.found : CItem → Option Found
  | .stub _ => none
  | .keyOnly k p _ => some ⟨k, p, none⟩
  | .full i _ => some ⟨i.key, i.prio, some i.val⟩

/-- a child slot as `populateNode` creates it from a decoded ploc -/
def slot : Option Ploc → CTree
  | none => .nil
  | some l => .stub l

/-- `itemLoc.read(withValue = false)` on an uncached item: header, length check, key — the value
    bytes are not asked for.  Returns key, priority and the value length found in the header. -/
def decItemKey (f : Bytes) (loc : Ploc) : Option (Bytes × Nat × Nat) := do
  if loc.len < itemHdrLen then none
  let h ← readAt f loc.off itemHdrLen
  let total := unbe (h.take 4)
  let kl := unbe ((h.drop 4).take 4)
  let vl := unbe ((h.drop 8).take 4)
  let pr := unbe ((h.drop 12).take 4)
  if total ≠ (itemHdrLen + kl + vl) % 4294967296 then none
  let k ← readAt f (loc.off + itemHdrLen) kl
  some (k, pr, vl)

/-- the load branch of `itemLoc.read` -/
def loadAt (f : Bytes) (wv : Bool) (loc : Ploc) : Option (CItem × List Rd) :=
  if wv then do
    let i ← decItem f loc
    some (.full i (some loc), itemReads loc i.key.length i.val.length true)
  else do
    let (k, p, vl) ← decItemKey f loc
    some (.keyOnly k p loc, itemReads loc k.length vl false)

/-- `itemLoc.read(withValue)`: nothing is read when what is asked for is cached; an item cached
    without its value is read again in full when the value is asked for -/
def loadItem (f : Bytes) (wv : Bool) : CItem → Option (CItem × List Rd)
  | .full i loc => some (.full i loc, [])
  | .keyOnly k p loc => if wv then loadAt f true loc else some (.keyOnly k p loc, [])
  | .stub loc => loadAt f wv loc

/-- `nodeLoc.read`: a cached node is returned as it is; otherwise one read of the 52-byte record,
    whose children and item start uncached -/
def loadNode (f : Bytes) : CTree → Option (CTree × List Rd)
  | .stub loc => do
    let n ← decNode f loc
    let il ← n.item
    some (.node (slot n.left) (.stub il) n.nn n.nb (slot n.right) (some loc), nodeReads loc)
  | t => some (t, [])

/-- `node.Evict`: the cached item is dropped iff it has a location -/
def CItem.evict : CItem → CItem
  | .full _ (some loc) => .stub loc
  | .keyOnly _ _ loc => .stub loc
  | x => x

/-- `Collection.GetItem(key, withValue)`: result, the cache afterwards, the file reads in order.
    `none` is an error return.  `fuel` bounds the depth (as in `loadTree`). -/
def getC (f : Bytes) (cmp : Bytes → Bytes → Ordering) (wv : Bool) :
    Nat → CTree → Bytes → Option (Option Found × CTree × List Rd)
  | 0, _, _ => none
  | fuel+1, t, k => do
    let (t1, r1) ← loadNode f t
    match t1 with
    | .nil => some (none, .nil, r1)
    | .stub _ => none
    | .node l it nn nb r loc => do
      let (it1, r2) ← loadItem f false it
      let fd ← it1.found
      match cmp k fd.key with
      | .lt => do
        let (res, l', r3) ← getC f cmp wv fuel l k
        some (res, .node l' it1 nn nb r loc, r1 ++ r2 ++ r3)
      | .gt => do
        let (res, r', r3) ← getC f cmp wv fuel r k
        some (res, .node l it1 nn nb r' loc, r1 ++ r2 ++ r3)
      | .eq => do
        let (it2, r3) ← if wv then loadItem f true it1 else some (it1, [])
        some (it2.found, .node l it2 nn nb r loc, r1 ++ r2 ++ r3)

/-- `Store.walk` with the child choice of `MinItem` (`left = true`) / `MaxItem` -/
def walkC (f : Bytes) (left : Bool) (wv : Bool) :
    Nat → CTree → Option (Option Found × CTree × List Rd)
  | 0, _ => none
  | fuel+1, t => do
    let (t1, r1) ← loadNode f t
    match t1 with
    | .nil => some (none, .nil, r1)
    | .stub _ => none
    | .node l it nn nb r loc =>
      match (if left then l else r) with
      | .nil => do
        let (it1, r2) ← loadItem f wv it
        some (it1.found, .node l it1 nn nb r loc, r1 ++ r2)
      | child => do
        let (res, c', r2) ← walkC f left wv fuel child
        some (res, (if left then .node c' it nn nb r loc else .node l it nn nb c' loc), r1 ++ r2)

/-- `Collection.evictSomeItems`: `walk` with a callback that evicts the node's item and goes to a
    randomly chosen child (`choices`: `true` = right) until that child is empty (on the empty
    slot the recursion reads nothing and returns at once) -/
def evictC (f : Bytes) : List Bool → CTree → Option (CTree × List Rd)
  | [], t => some (t, [])
  | c :: cs, t => do
    let (t1, r1) ← loadNode f t
    match t1 with
    | .nil => some (.nil, r1)
    | .stub _ => none
    | .node l it nn nb r loc =>
      if c then do
        let (r', r2) ← evictC f cs r
        some (.node l it.evict nn nb r' loc, r1 ++ r2)
      else do
        let (l', r2) ← evictC f cs l
        some (.node l' it.evict nn nb r loc, r1 ++ r2)

/-- the fully cached view of an abstract tree (what a mutator leaves behind for the nodes it built) -/
def ofTree : Tree → CTree
  | .nil => .nil
  | .node l i a b r p q => .node (ofTree l) (.full i q) a b (ofTree r) p

/-- the coldest view of a persisted tree (what `NewStore` starts from) -/
def cold (t : Tree) : CTree := slot t.slotLoc

/-- `visitNodes` (treap.go) for a visitor that never stops: `asc = true` is `ascendChoice`
    (`VisitItemsAscend`), `false` is `descendChoice`.  Per node: load it; read its item key-only;
    decide; if the node is inside the range visit the near subtree, read the item again — now with
    the value if asked for —, hand it to the visitor with its depth, visit the far subtree; on the
    way out (`defer`) evict the node's item.  Result: what the visitor saw, the cache afterwards,
    the file reads in order. -/
def visitC (f : Bytes) (cmp : Bytes → Bytes → Ordering) (asc wv : Bool) :
    Nat → CTree → Bytes → Nat → Option (List (Found × Nat) × CTree × List Rd)
  | 0, _, _, _ => none
  | fuel+1, t, tgt, d => do
    let (t1, r1) ← loadNode f t
    match t1 with
    | .nil => some ([], .nil, r1)
    | .stub _ => none
    | .node l it nn nb r loc => do
      let (it1, r2) ← loadItem f false it
      let fd ← it1.found
      let c := cmp tgt fd.key
      let choice := if asc then c != .gt else c == .gt
      if choice then do
        let (xs, n', r3) ← visitC f cmp asc wv fuel (if asc then l else r) tgt (d+1)
        let (it2, r4) ← loadItem f wv it1
        let fd2 ← it2.found
        let (ys, f', r5) ← visitC f cmp asc wv fuel (if asc then r else l) tgt (d+1)
        some (xs ++ (fd2, d) :: ys,
              (if asc then .node n' it2.evict nn nb f' loc else .node f' it2.evict nn nb n' loc),
              r1 ++ r2 ++ r3 ++ r4 ++ r5)
      else do
        let (ys, f', r3) ← visitC f cmp asc wv fuel (if asc then r else l) tgt (d+1)
        some (ys, (if asc then .node l it1.evict nn nb f' loc else .node f' it1.evict nn nb r loc),
              r1 ++ r2 ++ r3)

/-- `visitNodes` for a visitor that says stop at the `b`-th item it is handed (`b > 0`; the item it
    rejects has been delivered): the remaining budget is returned, 0 meaning "the visitor said
    stop".  A stop inside the near subtree returns at once; a stop at the node's own item returns
    without touching the far subtree; the deferred eviction of the node's item runs on every path. -/
def visitCK (f : Bytes) (cmp : Bytes → Bytes → Ordering) (asc wv : Bool) :
    Nat → CTree → Bytes → Nat → Nat → Option (List (Found × Nat) × Nat × CTree × List Rd)
  | 0, _, _, _, _ => none
  | fuel+1, t, tgt, d, b => do
    let (t1, r1) ← loadNode f t
    match t1 with
    | .nil => some ([], b, .nil, r1)
    | .stub _ => none
    | .node l it nn nb r loc => do
      let (it1, r2) ← loadItem f false it
      let fd ← it1.found
      let c := cmp tgt fd.key
      let choice := if asc then c != .gt else c == .gt
      if choice then do
        let (xs, b1, n', r3) ← visitCK f cmp asc wv fuel (if asc then l else r) tgt (d+1) b
        if b1 = 0 then
          some (xs, 0, (if asc then .node n' it1.evict nn nb r loc else .node l it1.evict nn nb n' loc),
                r1 ++ r2 ++ r3)
        else do
          let (it2, r4) ← loadItem f wv it1
          let fd2 ← it2.found
          if b1 = 1 then
            some (xs ++ [(fd2, d)], 0,
                  (if asc then .node n' it2.evict nn nb r loc else .node l it2.evict nn nb n' loc),
                  r1 ++ r2 ++ r3 ++ r4)
          else do
            let (ys, b2, f', r5) ← visitCK f cmp asc wv fuel (if asc then r else l) tgt (d+1) (b1 - 1)
            some (xs ++ (fd2, d) :: ys, b2,
                  (if asc then .node n' it2.evict nn nb f' loc else .node f' it2.evict nn nb n' loc),
                  r1 ++ r2 ++ r3 ++ r4 ++ r5)
      else do
        let (ys, b2, f', r3) ← visitCK f cmp asc wv fuel (if asc then r else l) tgt (d+1) b
        some (ys, b2, (if asc then .node l it1.evict nn nb f' loc else .node f' it1.evict nn nb r loc),
              r1 ++ r2 ++ r3)

/-! ### histories of cache operations on one version of a collection -/

/-- the operations that touch the cache of a version without creating a new one -/
inductive COp
  | get (k : Bytes) (wv : Bool)
  | min (wv : Bool)
  | max (wv : Bool)
  | evict (choices : List Bool)
deriving DecidableEq, Repr

def COp.wv : COp → Bool
  | .get _ w => w
  | .min w => w
  | .max w => w
  | .evict _ => false

def stepC (f : Bytes) (cmp : Bytes → Bytes → Ordering) (fuel : Nat) (c : CTree) :
    COp → Option (Option Found × CTree × List Rd)
  | .get k w => getC f cmp w fuel c k
  | .min w => walkC f true w fuel c
  | .max w => walkC f false w fuel c
  | .evict ch => (evictC f ch c).map fun x => (none, x.1, x.2)

/-- what Model A answers on the abstract tree -/
def absOp (cmp : Bytes → Bytes → Ordering) (T : Tree) : COp → Option Item
  | .get k _ => Tree.get cmp T k
  | .min _ => Tree.min T
  | .max _ => Tree.max T
  | .evict _ => none

/-- a whole history: answers in order, the cache at the end, all file reads in order -/
def runC (f : Bytes) (cmp : Bytes → Bytes → Ordering) (fuel : Nat) :
    List COp → CTree → Option (List (Option Found) × CTree × List Rd)
  | [], c => some ([], c, [])
  | op :: ops, c => do
    let (o, c1, r1) ← stepC f cmp fuel c op
    let (os, c2, r2) ← runC f cmp fuel ops c1
    some (o :: os, c2, r1 ++ r2)

/-! ### … and with range visits among them -/

/-- lookups, Min/Max, evictions (`point`) and range visits: to the end (`stop = 0`) or with a
    visitor that says stop at its `stop`-th item -/
inductive COp2
  | point (op : COp)
  | visit (asc : Bool) (tgt : Bytes) (wv : Bool) (stop : Nat)
deriving DecidableEq, Repr

inductive COut
  | one (o : Option Found)
  | many (l : List (Found × Nat))
deriving DecidableEq, Repr

def stepC2 (f : Bytes) (cmp : Bytes → Bytes → Ordering) (fuel : Nat) (c : CTree) :
    COp2 → Option (COut × CTree × List Rd)
  | .point op => (stepC f cmp fuel c op).map fun x => (.one x.1, x.2.1, x.2.2)
  | .visit asc tgt wv 0 => (visitC f cmp asc wv fuel c tgt 0).map fun x => (.many x.1, x.2.1, x.2.2)
  | .visit asc tgt wv (k+1) =>
    (visitCK f cmp asc wv fuel c tgt 0 (k+1)).map fun x => (.many x.1, x.2.2.1, x.2.2.2)

def runC2 (f : Bytes) (cmp : Bytes → Bytes → Ordering) (fuel : Nat) :
    List COp2 → CTree → Option (List COut × CTree × List Rd)
  | [], c => some ([], c, [])
  | op :: ops, c => do
    let (o, c1, r1) ← stepC2 f cmp fuel c op
    let (os, c2, r2) ← runC2 f cmp fuel ops c1
    some (o :: os, c2, r1 ++ r2)

end Gkv.Cache
