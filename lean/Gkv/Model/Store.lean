/-
Model B, part 2 — stores, collections, Flush, open (backward root scan), FlushRevert, Snapshot,
CopyTo, as pure functions on values.  Mirrors store.go / collection.go.

What is *not* in this model: which nodes/items happen to be cached (it never changes an API
result or a byte of the file; cache-dependent behaviour — the read log of C19, the reference
count events of C15 — is treated in `Model/Lazy.lean` and `Model/Refs.lean`), reference counts
and recycling (Model H, `Model/Versions.lean`), goroutines (Models C and I).
-/
import Gkv.Model.Codec
open Std

namespace Gkv

/-- one `WriteAt`/`Truncate` issued to the file -/
inductive FileEv
  | write (off len : Nat)
  | trunc (size : Nat)
deriving DecidableEq, Repr

/-- a file being written through a store: contents, the store's `size` (next write position),
    the log of write calls, and the fault plan of property C07: `failAt = some k` makes the k-th
    `WriteAt` from now fail after `torn` bytes landed; once `failed`, Flush has returned with the
    error and nothing further happens. -/
structure FileSt where
  bytes : Bytes
  size : Nat
  log : List FileEv
  failAt : Option Nat := none
  torn : Nat := 0
  failed : Bool := false
deriving Repr

/-- one `WriteAt(b, off)` -/
def FileSt.writeAtOff (s : FileSt) (off : Nat) (b : Bytes) : FileSt :=
  if s.failed then s
  else match s.failAt with
    | some 1 =>
      let part := b.take s.torn
      { s with bytes := if part.isEmpty then s.bytes else writeAt s.bytes off part,
               log := if part.isEmpty then s.log else s.log ++ [.write off part.length],
               failAt := none, failed := true }
    | some (k+2) =>
      { s with bytes := writeAt s.bytes off b, log := s.log ++ [.write off b.length], failAt := some (k+1) }
    | _ => { s with bytes := writeAt s.bytes off b, log := s.log ++ [.write off b.length] }

def FileSt.write (s : FileSt) (b : Bytes) : FileSt := s.writeAtOff s.size b

def FileSt.advance (s : FileSt) (n : Nat) : FileSt :=
  if s.failed then s else { s with size := s.size + n }

/-! ### Flush of one collection (`Collection.write`) -/

/-- `writeItems`: unpersisted items of unpersisted nodes, in key order.  The header+key and the
    value go out as two `WriteAt` calls (`itemLoc.write`, `Store.ItemValWrite`); the location is
    recorded and `size` advanced only when both succeeded. -/
def writeItems : Tree → FileSt → Tree × FileSt
  | .nil, s => (.nil, s)
  | .node l i a b r (some p) q, s => (.node l i a b r (some p) q, s)
  | .node l i a b r none q, s =>
    let (l', s1) := writeItems l s
    match q with
    | some il =>
      let (r', s2) := writeItems r s1
      (.node l' i a b r' none (some il), s2)
    | none =>
      if s1.failed then (.node l' i a b r none none, s1) else
      let off := s1.size
      let s1a := s1.write (encItemHdrKey i)
      let s1b := s1a.writeAtOff (off + (encItemHdrKey i).length) i.val
      let s1c := s1b.advance (itemRecLen i)
      if s1c.failed then (.node l' i a b r none none, s1c) else
      let (r', s2) := writeItems r s1c
      (.node l' i a b r' none (some ⟨off, itemRecLen i⟩), s2)

/-- `writeNodes`: unpersisted nodes, children first. -/
def writeNodes : Tree → FileSt → Tree × FileSt
  | .nil, s => (.nil, s)
  | .node l i a b r (some p) q, s => (.node l i a b r (some p) q, s)
  | .node l i a b r none q, s =>
    let (l', s1) := writeNodes l s
    let (r', s2) := writeNodes r s1
    if s2.failed then (.node l' i a b r' none q, s2) else
    let off := s2.size
    let rec_ := encNode { item := q, left := l'.slotLoc, right := r'.slotLoc, nn := a, nb := b }
    let s3 := (s2.write rec_).advance nodeRecLen
    if s3.failed then (.node l' i a b r' none q, s3) else
    (.node l' i a b r' (some ⟨off, nodeRecLen⟩) q, s3)

def writeTree (t : Tree) (s : FileSt) : Tree × FileSt :=
  let (t1, s1) := writeItems t s
  if s1.failed then (t1, s1) else writeNodes t1 s1

/-! ### stores -/

structure Coll where
  name : Bytes
  cmp : CmpKind
  root : Tree
deriving Repr, Inhabited

/-- insert/replace by name, keeping the list sorted by name (Go: a map; names are sorted on use) -/
def collsSet (c : Coll) : List Coll → List Coll
  | [] => [c]
  | d :: rest =>
    match compare c.name d.name with
    | .lt => c :: d :: rest
    | .eq => c :: rest
    | .gt => d :: collsSet c rest

def collsGet (n : Bytes) : List Coll → Option Coll
  | [] => none
  | d :: rest => if d.name = n then some d else collsGet n rest

def collsRemove (n : Bytes) (cs : List Coll) : List Coll := cs.filter (fun d => d.name ≠ n)

structure Store where
  file : Option Nat      -- file id; `none` = memory-only
  size : Nat             -- `Store.size`
  colls : List Coll
  readOnly : Bool
deriving Repr, Inhabited

/-- all collections, in name order, written one after the other (`Store.Flush`, first loop) -/
def flushColls : List Coll → FileSt → List Coll × FileSt
  | [], s => ([], s)
  | c :: rest, s =>
    let (t, s1) := writeTree c.root s
    if s1.failed then ({ c with root := t } :: rest, s1) else
    let (rest', s2) := flushColls rest s1
    ({ c with root := t } :: rest', s2)

def rootEntries (cs : List Coll) : List (Bytes × Option Ploc) :=
  cs.map (fun c => (c.name, c.root.slotLoc))

/-- `Store.Flush` on a writable file-backed store (with the fault plan carried by `s`). -/
def flushStore (cs : List Coll) (s : FileSt) : List Coll × FileSt :=
  let (cs', s1) := flushColls cs s
  if s1.failed then (cs', s1) else
  let rec_ := encRoot s1.size (rootEntries cs')
  (cs', (s1.write rec_).advance rec_.length)

/-! ### opening: the backward scan -/

inductive ScanRes
  | found (e : Nat) (roots : List (Bytes × Option Ploc))
  | empty       -- defaultToEmpty: no earlier root
  | noRoots     -- "couldn't find roots; file corrupted or wrong?"
deriving Repr

/-- `readRootsScan` from `Store.size = sz` downwards: both Go loops decrement `size` by one per
    iteration, so together they are one descent over `sz`. -/
def scanRoots (f : Bytes) (dflt : Bool) : Nat → ScanRes
  | 0 => if dflt then .empty else .noRoots
  | sz+1 =>
    if sz + 1 ≤ rootsLen then (if dflt then .empty else .noRoots)
    else match rootAt f (sz+1) with
      | some roots => .found (sz+1) roots
      | none => scanRoots f dflt sz

/-- a comparator is attached to a name by the harness's `KeyCompareForCollection` callback -/
def loadColls (f : Bytes) (cmpOf : Bytes → CmpKind) :
    List (Bytes × Option Ploc) → Option (List Coll)
  | [] => some []
  | (n, p) :: rest => do
    let t ← loadTree f (f.length + 1) p
    let cs ← loadColls f cmpOf rest
    some (collsSet ⟨n, cmpOf n, t⟩ cs)

inductive OpenRes
  | ok (st : Store)
  | noRoots
  | corrupt      -- a root record was accepted but what it points at does not decode
deriving Repr

/-- `NewStoreEx(file, callbacks)` on existing bytes -/
def openStore (fid : Nat) (f : Bytes) (cmpOf : Bytes → CmpKind) : OpenRes :=
  if f.length = 0 then .ok ⟨some fid, 0, [], false⟩
  else match scanRoots f false f.length with
    | .found e roots =>
      match loadColls f cmpOf roots with
      | some cs => .ok ⟨some fid, e, cs, false⟩
      | none => .corrupt
    | .empty => .ok ⟨some fid, 0, [], false⟩
    | .noRoots => .noRoots

/-- `Store.FlushRevert` on a file-backed store: new store state and the new file contents -/
def revertStore (st : Store) (fid : Nat) (f : Bytes) (cmpOf : Bytes → CmpKind) :
    Option (Store × Bytes) :=
  -- first locate the end of the most recent root record (after a failed Flush `size` lies beyond it)
  let cur := match scanRoots f true st.size with
    | .found e _ => e
    | _ => 0
  let sz := if cur > rootsLen then cur - 1 else cur
  match scanRoots f true sz with
  | .found e roots =>
    match loadColls f cmpOf roots with
    | some cs =>
      some ({ st with size := e, colls := cs, file := some fid },
            if st.readOnly then f else f.take e)
    | none => none
  | _ => some ({ st with size := 0, colls := [], file := some fid }, if st.readOnly then f else [])

/-! ### item validation (`Collection.SetItem`) -/

/-- `val = none` is Go's nil value; priorities are int32 -/
def validItem (key : Bytes) (val : Option Bytes) (prio : Int) : Bool :=
  key.length ≠ 0 && key.length ≤ 65535 && val.isSome && prio ≥ 0

/-! ### CopyTo -/

/-- per collection: `SetItem` every item in ascending order into the destination collection,
    flushing the whole destination store at every `fe`-th item (`fe > 0`). -/
def copyItems (fe : Nat) (name : Bytes) (cmp : CmpKind) :
    List Item → Nat → List Coll → FileSt → List Coll × FileSt
  | [], _, cs, s => (cs, s)
  | i :: rest, n, cs, s =>
    let c := (collsGet name cs).getD ⟨name, cmp, .nil⟩
    let cs1 := collsSet { c with root := Tree.setItem cmp.fn c.root i } cs
    let n1 := n + 1
    if fe > 0 ∧ n1 % fe = 0 then
      let (cs2, s2) := flushStore cs1 s
      copyItems fe name cmp rest n1 cs2 s2
    else copyItems fe name cmp rest n1 cs1 s

def copyColls (fe : Nat) : List Coll → List Coll → FileSt → List Coll × FileSt
  | [], cs, s => (cs, s)
  | c :: rest, cs, s =>
    let cs0 := collsSet ⟨c.name, c.cmp, .nil⟩ cs
    let (cs1, s1) := copyItems fe c.name c.cmp c.root.toList 0 cs0 s
    copyColls fe rest cs1 s1

/-- `Store.CopyTo(dstFile, flushEvery)` into an empty destination file -/
def copyTo (src : List Coll) (fe : Int) : List Coll × FileSt :=
  let feN := if fe > 0 then fe.toNat else 0
  let (cs, s) := copyColls feN src [] { bytes := [], size := 0, log := [] }
  if fe > 0 then flushStore cs s else (cs, s)

end Gkv
