/-
The executable history interpreter: the same operation lines the Go harness runs against the real
package are folded over Model B here, and each line yields one canonical observation string.
(DESIGN.md appendix; the grammar below is the authoritative one.)

  reset | mem S | open S F | close S | setcoll S N | rmcoll S N | names S
  set S N K V P | del S N K | get S N K | geti S N K W | exist S N K | min S N W | max S N W
  totals S N | len S N | flush S | evict S N | snap S S2 | revert S | copy S S2 F2 FE
  visit S N asc|desc T W STOP | dump S | image F | wlog F | crash F K C | shape S N

S, F are small integers; N, K, V, T are byte strings (`-` = nil, `h<hex>` otherwise); W is 0/1.
-/
import Gkv.Model.Store
import Gkv.Model.ScanFast
import Gkv.Model.Blocks
import Gkv.Model.Iter
open Std

namespace Gkv

/-! ### tokens -/

def hexVal (c : Char) : Option Nat :=
  if '0' ≤ c ∧ c ≤ '9' then some (c.toNat - 48)
  else if 'a' ≤ c ∧ c ≤ 'f' then some (c.toNat - 87)
  else none

def parseHexAux : List Char → Bytes → Option Bytes
  | [], acc => some acc.reverse
  | [_], _ => none
  | a :: b :: rest, acc => do
    let x ← hexVal a
    let y ← hexVal b
    parseHexAux rest (UInt8.ofNat (x * 16 + y) :: acc)

/-- `-` ↦ nil, `h<hex>` ↦ bytes -/
def parseBytes (s : String) : Option (Option Bytes) :=
  match s.toList with
  | ['-'] => some none
  | 'h' :: rest => (parseHexAux rest []).map some
  | _ => none

def hexChar (n : Nat) : Char := Char.ofNat (if n < 10 then 48 + n else 87 + n)

def hexOf (b : Bytes) : String :=
  String.ofList (b.foldr (fun x acc => hexChar (x.toNat / 16) :: hexChar (x.toNat % 16) :: acc) [])

def showBytes (b : Bytes) : String := "h" ++ hexOf b
def showOptBytes : Option Bytes → String
  | none => "-"
  | some b => showBytes b

/-- comparator of a collection is fixed by its name (both sides use the same rule) -/
def cmpOfName (n : Bytes) : CmpKind :=
  match n with
  | 114 :: _ => .rev
  | 102 :: _ => .fold
  | _ => .bytes

def fnv (b : Bytes) : UInt64 :=
  b.foldl (fun h x => (h ^^^ x.toUInt64) * 1099511628211) 14695981039346656037

/-! ### the world -/

/-- a file with the complete history of calls that changed it -/
structure WFile where
  bytes : Bytes
  hist : List (Nat × Bytes ⊕ Nat)   -- write (off, data) | truncate size, oldest first
  vals : List (Nat × Nat) := []      -- (offset, length) of every item VALUE ever flushed (C19)
deriving Inhabited

/-- value ranges of the persisted items of a tree -/
def Tree.valRanges : Tree → List (Nat × Nat)
  | .nil => []
  | .node l i _ _ r _ q =>
    l.valRanges ++ (match q with
      | some il => [(il.off + itemHdrLen + i.key.length, i.val.length)]
      | none => []) ++ r.valRanges

def collsValRanges (cs : List Coll) : List (Nat × Nat) := cs.flatMap (fun c => c.root.valRanges)

def addVals (old new : List (Nat × Nat)) : List (Nat × Nat) :=
  new.foldl (fun acc x => if acc.contains x then acc else acc ++ [x]) old

structure World where
  files : List (Nat × WFile)
  stores : List (Nat × Store)
  fault : Option (Nat × Nat × Int) := none   -- armed fault: file, k-th call, torn (< 0: outright)
deriving Inhabited

def assocGet {α : Type} (k : Nat) : List (Nat × α) → Option α
  | [] => none
  | (k', v) :: rest => if k = k' then some v else assocGet k rest

def assocSet {α : Type} (k : Nat) (v : α) : List (Nat × α) → List (Nat × α)
  | [] => [(k, v)]
  | (k', v') :: rest => if k = k' then (k, v) :: rest else (k', v') :: assocSet k v rest

def assocDel {α : Type} (k : Nat) (l : List (Nat × α)) : List (Nat × α) := l.filter (·.1 ≠ k)

def World.file (w : World) (f : Nat) : WFile := (assocGet f w.files).getD { bytes := [], hist := [] }

/-- run a file-writing function of Model B against a world file, recording the writes with data -/
def recordWrites (wf : WFile) (before : Bytes) (after : FileSt) : WFile :=
  -- Model B logs (off,len); data is read back from the resulting bytes (writes of one flush
  -- never overlap each other: each starts where the previous one ended)
  let evs := after.log.map (fun e => match e with
    | .write off len => (Sum.inl (off, (after.bytes.drop off).take len) : Nat × Bytes ⊕ Nat)
    | .trunc n => Sum.inr n)
  let _ := before
  { bytes := after.bytes, hist := wf.hist ++ evs, vals := wf.vals }

/-! ### observations -/

def showItem (wv : Bool) (i : Item) : String :=
  showBytes i.key ++ ":" ++ toString i.prio ++ (if wv then ":" ++ showBytes i.val else "")

def showOptItem (wv : Bool) : Option Item → String
  | none => "-"
  | some i => showItem wv i

def showVisited (wv : Bool) (l : List (Item × Nat)) : String :=
  ",".intercalate (l.map (fun (i, d) =>
    showBytes i.key ++ ":" ++ toString i.prio ++ ":" ++ toString d ++
      (if wv then ":" ++ showBytes i.val else "")))

def showColl (c : Coll) : String :=
  showBytes c.name ++ "{" ++ ",".intercalate (c.root.toList.map (showItem true)) ++ "}(" ++
    toString c.root.nn ++ "," ++ toString c.root.nb ++ ")"

def showStore (st : Store) : String := ";".intercalate (st.colls.map showColl)

/-- tree shape with aggregates: (left key:prio/nn/nb right) -/
def showShape : Tree → String
  | .nil => "."
  | .node l i a b r _ _ =>
    "(" ++ showShape l ++ " " ++ hexOf i.key ++ ":" ++ toString i.prio ++ "/" ++ toString a ++ "/" ++
      toString b ++ " " ++ showShape r ++ ")"

/-- multiset of delivered keys, canonically ordered (the delivery order of the block visitors
    depends on the mangler / on math/rand) -/
def showKeysSorted (l : List Item) : String :=
  let ks := (l.map (fun i => hexOf i.key)).toArray.qsort (· < ·)
  toString ks.size ++ ":" ++ toString (fnv (",".intercalate ks.toList).toUTF8.toList).toNat

/-- the i-th item of a `fill`: key `k%06d`, value = decimal i, priority = a fixed hash of i -/
def fillItem (i : Nat) : Item :=
  let ds := (toString i).toUTF8.toList
  let key := (107 : UInt8) :: (List.replicate (6 - ds.length) (48 : UInt8) ++ ds)
  ⟨key, ds, (i * 2654435761 + 12345) % 2147483648⟩

/-! ### crash images -/

def applyEv (f : Bytes) : (Nat × Bytes ⊕ Nat) → Bytes
  | .inl (off, d) => writeAt f off d
  | .inr n => f.take n

/-- the file after the first `k` calls completed and the first `c` bytes of call `k+1` landed -/
def crashImage (hist : List (Nat × Bytes ⊕ Nat)) (k c : Nat) : Bytes :=
  let f := (hist.take k).foldl applyEv []
  match hist.drop k with
  | .inl (off, d) :: _ => writeAt f off (d.take c)
  | _ => f

def showOpen : OpenRes → String
  | .ok st => "ok " ++ showStore st
  | .noRoots => "noroots"
  | .corrupt => "corrupt"

/-! ### the step function -/

def withColl (w : World) (s : Nat) (n : Bytes) (k : Store → Coll → World × String) : World × String :=
  match assocGet s w.stores with
  | none => (w, "nostore")
  | some st =>
    match collsGet n st.colls with
    | none => (w, "nocoll")
    | some c => k st c

def putColl (w : World) (s : Nat) (st : Store) (c : Coll) : World :=
  { w with stores := assocSet s { st with colls := collsSet c st.colls } w.stores }

def stepTokens (w : World) : List String → World × String
  | ["reset"] => ({ files := [], stores := [] }, "ok")
  | ["mem", s] => match s.toNat? with
    | some s => ({ w with stores := assocSet s ⟨none, 0, [], false⟩ w.stores }, "ok")
    | none => (w, "bad-op")
  | ["open", s, f] => match s.toNat?, f.toNat? with
    | some s, some f =>
      let wf := w.file f
      let w := { w with files := assocSet f wf w.files }
      (match openStore f wf.bytes cmpOfName with
       | .ok st => ({ w with stores := assocSet s st w.stores }, "ok")
       | .noRoots => (w, "noroots")
       | .corrupt => (w, "corrupt"))
    | _, _ => (w, "bad-op")
  | ["cfg", _] => (w, "ok")
  | ["rmfile", f] => match f.toNat? with
    | some f => ({ w with files := assocDel f w.files }, "ok")
    | none => (w, "bad-op")
  | ["heapcheck"] => (w, "ok")
  | ["appendcheck", _] => (w, "ok")
  | ["rmark", _] => (w, "ok")
  | ["kreads", _] => (w, "ok")      -- replaced by `readsok` in the second pass (C19)
  | ["readsok", f, reads] => match f.toNat? with
    | some f =>
      -- no read of a key-only operation may touch a byte of any item value
      let vals := (w.file f).vals
      let rs := (reads.splitOn ",").filterMap (fun r =>
        match (r.drop 1).toString.splitOn "+" with
        | [a, b] => match a.toNat?, b.toNat? with
          | some a, some b => if r.startsWith "r" then some (a, b) else none
          | _, _ => none
        | _ => none)
      let bad := rs.filter (fun r => vals.any (fun v => v.2 > 0 && r.2 > 0 && r.1 < v.1 + v.2 && v.1 < r.1 + r.2))
      (w, if bad.isEmpty then "ok" else "bad:value-bytes-read " ++ toString bad)
    | none => (w, "bad-op")
  | ["readsok", _] => (w, "ok")
  | ["openreads", f] => match f.toNat? with
    | some f =>
      -- what opening this file must read: Stat, the 24-byte tail, the rest of the last root record
      let b := (w.file f).bytes
      if b.length = 0 then (w, "s")
      else match scanRoots b false b.length with
        | .found e _ =>
          if e = b.length then
            let off := unbe ((b.drop (e - 24)).take 8)
            (w, "s,r" ++ toString (e - 24) ++ "+24,r" ++ toString off ++ "+" ++ toString (e - off - 24))
          else (w, "scan")
        | _ => (w, "scan")
    | none => (w, "bad-op")
  | ["decodehex", h] =>
    (match parseHexAux h.toList [] with
     | some b => (w, showOpen (openStore 0 b cmpOfName))
     | none => if h == "-" then (w, showOpen (openStore 0 [] cmpOfName)) else (w, "bad-op"))
  | ["crashopen", f, k, c, f2, s] => match f.toNat?, k.toNat?, c.toNat?, f2.toNat?, s.toNat? with
    | some f, some k, some c, some f2, some s =>
      let img := crashImage (w.file f).hist k c
      let wf : WFile := { bytes := img, hist := if img.isEmpty then [] else [.inl (0, img)] }
      let w := { w with files := assocSet f2 wf w.files }
      (match openStore f2 img cmpOfName with
       | .ok st => ({ w with stores := assocSet s st w.stores }, "ok")
       | .noRoots => (w, "noroots")
       | .corrupt => (w, "corrupt"))
    | _, _, _, _, _ => (w, "bad-op")
  | ["setroot", s, n, k, p, mode] => match s.toNat?, parseBytes n, parseBytes k, p.toNat?, mode.toNat? with
    | some s, some (some n), some (some k), some p, some mode =>
      withColl w s n fun st c =>
        if st.readOnly then (w, "err-ro") else
        let b := match st.file with
          | some f => (w.file f).bytes
          | none => []
        let val : Bytes := match scanRoots b false b.length with
          | .found e _ =>
            let off := unbe ((b.drop (e - 24)).take 8)
            let r := (b.drop off).take (e - off)
            let flip (i : Nat) (m : UInt8) : Bytes := (r.take i) ++ ((r.drop i).take 1).map (· ^^^ m) ++ r.drop (i + 1)
            (match mode % 4 with
             | 0 => flip (r.length - 1) 0xff
             | 1 => flip 0 0xff
             | 2 => flip 15 0x01
             | _ => flip (r.length - 13) 0x01)
          | _ => "no-root-yet".toUTF8.toList
        (putColl w s st { c with root := Tree.setItem c.cmp.fn c.root ⟨k, val, p⟩ }, "ok")
    | _, _, _, _, _ => (w, "bad-op")
  | ["iter", s, n, dir, t, wv, prog] => match s.toNat?, parseBytes n, parseBytes t with
    | some s, some (some n), some t =>
      withColl w s n fun _ c =>
        let all := (if dir == "asc" then Tree.visitAsc c.cmp.fn c.root (t.getD []) 0
                    else Tree.visitDesc c.cmp.fn c.root (t.getD []) 0).map (·.1)
        let cmds : List Iter.Cmd := (prog.toList ++ ['C']).filterMap (fun ch =>
          if ch == 'N' then some .next else if ch == 'C' then some .close else none)
        let outs := Iter.outputs (List.range all.length) cmds
        let shown := outs.map (fun o => match o with
          | .nextTrue i => "T:" ++ showItem (wv == "1") (all.getD i default)
          | .nextFalse => "F"
          | .closed => "C")
        (w, ",".intercalate shown)
    | _, _, _ => (w, "bad-op")
  | ["refcheck"] => (w, "ok")
  | ["refbalance"] => (w, "ok")
  | ["churn", _] => (w, "ok")
  | ["fault", f, k, t] => match f.toNat?, k.toNat?, t.toInt? with
    | some f, some k, some t => ({ w with fault := some (f, k, t) }, "ok")
    | _, _, _ => (w, "bad-op")
  | ["unfault", _] => ({ w with fault := none }, "ok")
  | ["opendump", f] => match f.toNat? with
    | some f => (w, showOpen (openStore f (w.file f).bytes cmpOfName))
    | none => (w, "bad-op")
  | ["close", s] => match s.toNat? with
    | some s => (match assocGet s w.stores with
      | some _ => ({ w with stores := assocDel s w.stores }, "ok")
      | none => (w, "nostore"))
    | none => (w, "bad-op")
  | ["drop", s] => match s.toNat? with
    | some s => ({ w with stores := assocDel s w.stores }, "ok")
    | none => (w, "bad-op")
  | ["setcoll", s, n] => match s.toNat?, parseBytes n with
    | some s, some (some n) =>
      (match assocGet s w.stores with
       | none => (w, "nostore")
       | some st =>
         let c := (collsGet n st.colls).getD ⟨n, cmpOfName n, .nil⟩
         (putColl w s st { c with cmp := cmpOfName n }, "ok"))
    | _, _ => (w, "bad-op")
  | ["rmcoll", s, n] => match s.toNat?, parseBytes n with
    | some s, some (some n) =>
      (match assocGet s w.stores with
       | none => (w, "nostore")
       | some st => ({ w with stores := assocSet s { st with colls := collsRemove n st.colls } w.stores }, "ok"))
    | _, _ => (w, "bad-op")
  | ["names", s] => match s.toNat? with
    | some s => (match assocGet s w.stores with
      | none => (w, "nostore")
      | some st => (w, ",".intercalate (st.colls.map (fun c => showBytes c.name))))
    | none => (w, "bad-op")
  | ["set", s, n, k, v, p] => match s.toNat?, parseBytes n, parseBytes k, parseBytes v, p.toInt? with
    | some s, some (some n), some k, some v, some p =>
      withColl w s n fun st c =>
        if st.readOnly then (w, "err-ro")
        else if !validItem (k.getD []) v p || k.isNone then (w, "err-arg")
        else
          let it : Item := ⟨k.getD [], v.getD [], p.toNat⟩
          (putColl w s st { c with root := Tree.setItem c.cmp.fn c.root it }, "ok")
    | _, _, _, _, _ => (w, "bad-op")
  | ["del", s, n, k] => match s.toNat?, parseBytes n, parseBytes k with
    | some s, some (some n), some k =>
      withColl w s n fun st c =>
        if st.readOnly then (w, "err-ro")
        else
          let (t, d) := Tree.delete c.cmp.fn c.root (k.getD [])
          (putColl w s st { c with root := t }, toString d)
    | _, _, _ => (w, "bad-op")
  | ["get", s, n, k] => match s.toNat?, parseBytes n, parseBytes k with
    | some s, some (some n), some k =>
      withColl w s n fun _ c => (w, showOptBytes ((Tree.get c.cmp.fn c.root (k.getD [])).map (·.val)))
    | _, _, _ => (w, "bad-op")
  | ["geti", s, n, k, wv] => match s.toNat?, parseBytes n, parseBytes k with
    | some s, some (some n), some k =>
      withColl w s n fun _ c => (w, showOptItem (wv == "1") (Tree.get c.cmp.fn c.root (k.getD [])))
    | _, _, _ => (w, "bad-op")
  | ["exist", s, n, k] => match s.toNat?, parseBytes n, parseBytes k with
    | some s, some (some n), some k =>
      withColl w s n fun _ c => (w, toString (Tree.get c.cmp.fn c.root (k.getD [])).isSome)
    | _, _, _ => (w, "bad-op")
  | ["min", s, n, wv] => match s.toNat?, parseBytes n with
    | some s, some (some n) => withColl w s n fun _ c => (w, showOptItem (wv == "1") c.root.min)
    | _, _ => (w, "bad-op")
  | ["max", s, n, wv] => match s.toNat?, parseBytes n with
    | some s, some (some n) => withColl w s n fun _ c => (w, showOptItem (wv == "1") c.root.max)
    | _, _ => (w, "bad-op")
  | ["totals", s, n] => match s.toNat?, parseBytes n with
    | some s, some (some n) =>
      withColl w s n fun _ c => (w, toString c.root.nn ++ "," ++ toString c.root.nb)
    | _, _ => (w, "bad-op")
  | ["len", s, n] => match s.toNat?, parseBytes n with
    | some s, some (some n) => withColl w s n fun _ c => (w, toString c.root.toList.length)
    | _, _ => (w, "bad-op")
  | ["blocks", s, n, _, mg] => match s.toNat?, parseBytes n with
    | some s, some (some n) => withColl w s n fun _ c =>
      let mangle : List Bytes → List Bytes := if mg == "rev" then List.reverse else id
      (match Tree.visitBlocks c.cmp.fn c.root mangle with
       | none => (w, "err-blocks")
       | some l => (w, showKeysSorted l))
    | _, _ => (w, "bad-op")
  | ["random", s, n] => match s.toNat?, parseBytes n with
    | some s, some (some n) => withColl w s n fun _ c =>
      (match Tree.visitRandom c.cmp.fn c.root id with
       | none => (w, "err-blocks")
       | some l => (w, showKeysSorted l))
    | _, _ => (w, "bad-op")
  | ["fill", s, n, cnt] => match s.toNat?, parseBytes n, cnt.toNat? with
    | some s, some (some n), some cnt => withColl w s n fun st c =>
      if st.readOnly then (w, "err-ro") else
      let t := (List.range cnt).foldl (fun t i => Tree.setItem c.cmp.fn t (fillItem i)) c.root
      (putColl w s st { c with root := t }, "ok")
    | _, _, _ => (w, "bad-op")
  | ["evict", s, n, _] => match s.toNat?, parseBytes n with
    | some s, some (some n) => withColl w s n fun _ _ => (w, "ok")
    | _, _ => (w, "bad-op")
  | ["flush", s] => match s.toNat? with
    | some s => (match assocGet s w.stores with
      | none => (w, "nostore")
      | some st =>
        if st.readOnly then (w, "err-ro") else
        match st.file with
        | none => (w, "err-nofile")
        | some f =>
          let wf := w.file f
          let plan : Option (Nat × Nat) := match w.fault with
            | some (ff, k, t) => if ff = f then some (k, if t < 0 then 0 else t.toNat) else none
            | none => none
          let fs0 : FileSt := { bytes := wf.bytes, size := st.size, log := [],
                                failAt := plan.map (·.1), torn := (plan.map (·.2)).getD 0 }
          let (cs, fs) := flushStore st.colls fs0
          let wf1 := recordWrites wf wf.bytes fs
          let wf2 := { wf1 with vals := addVals wf1.vals (collsValRanges cs) }
          ({ w with files := assocSet f wf2 w.files,
                    stores := assocSet s { st with colls := cs, size := fs.size } w.stores },
           if fs.failed then "err-io" else "ok"))
    | none => (w, "bad-op")
  | ["snap", s, s2] => match s.toNat?, s2.toNat? with
    | some s, some s2 => (match assocGet s w.stores with
      | none => (w, "nostore")
      | some st => ({ w with stores := assocSet s2 { st with readOnly := true } w.stores }, "ok"))
    | _, _ => (w, "bad-op")
  | ["revert", s] => match s.toNat? with
    | some s => (match assocGet s w.stores with
      | none => (w, "nostore")
      | some st =>
        match st.file with
        | none => (w, "err-nofile")
        | some f =>
          let wf := w.file f
          match revertStore st f wf.bytes cmpOfName with
          | none => (w, "corrupt")
          | some (st', bytes') =>
            let wf' : WFile :=
              if st.readOnly then wf else { wf with bytes := bytes', hist := wf.hist ++ [.inr st'.size] }
            ({ w with files := assocSet f wf' w.files, stores := assocSet s st' w.stores }, "ok"))
    | none => (w, "bad-op")
  | ["copy", s, s2, f2, fe] => match s.toNat?, s2.toNat?, f2.toNat?, fe.toInt? with
    | some s, some s2, some f2, some fe => (match assocGet s w.stores with
      | none => (w, "nostore")
      | some st =>
        let (cs, fs) := copyTo st.colls fe
        let wf0 := recordWrites { bytes := [], hist := [] } [] fs
        let wf := { wf0 with vals := collsValRanges cs }
        ({ w with files := assocSet f2 wf w.files,
                  stores := assocSet s2 ⟨some f2, fs.size, cs, false⟩ w.stores }, "ok"))
    | _, _, _, _ => (w, "bad-op")
  | ["visit", s, n, dir, t, wv, stop] =>
    match s.toNat?, parseBytes n, parseBytes t, stop.toInt? with
    | some s, some (some n), some t, some stop =>
      withColl w s n fun _ c =>
        let all := if dir == "asc" then Tree.visitAsc c.cmp.fn c.root (t.getD []) 0
                   else Tree.visitDesc c.cmp.fn c.root (t.getD []) 0
        let got := if stop < 0 then all else all.take (stop.toNat + 1)
        (w, showVisited (wv == "1") got)
    | _, _, _, _ => (w, "bad-op")
  | ["dump", s] => match s.toNat? with
    | some s => (match assocGet s w.stores with
      | none => (w, "nostore")
      | some st => (w, showStore st))
    | none => (w, "bad-op")
  | ["shape", s, n] => match s.toNat?, parseBytes n with
    | some s, some (some n) => withColl w s n fun _ c => (w, showShape c.root)
    | _, _ => (w, "bad-op")
  | ["image", f] => match f.toNat? with
    | some f => let wf := w.file f; (w, toString wf.bytes.length ++ ":" ++ toString (fnv wf.bytes).toNat)
    | none => (w, "bad-op")
  | ["imagehex", f] => match f.toNat? with
    | some f => (w, hexOf (w.file f).bytes)
    | none => (w, "bad-op")
  | ["wlog", f] => match f.toNat? with
    | some f =>
      (w, ",".intercalate ((w.file f).hist.map (fun e => match e with
        | .inl (off, d) => "w" ++ toString off ++ "+" ++ toString d.length
        | .inr n => "t" ++ toString n)))
    | none => (w, "bad-op")
  | ["crash", f, k, c] => match f.toNat?, k.toNat?, c.toNat? with
    | some f, some k, some c =>
      let img := crashImage (w.file f).hist k c
      (w, showOpen (openStore f img cmpOfName))
    | _, _, _ => (w, "bad-op")
  | _ => (w, "bad-op")

/-- operations that wrap another operation -/
def stepTokens2 (w : World) (ts : List String) : World × String :=
  match ts with
  | "nvisit" :: s :: n :: dir :: t :: wv :: pos :: "|" :: nested =>
    -- a visit pins the version current at its start; the nested operation runs at item `pos`
    let (_, vis) := stepTokens w ["visit", s, n, dir, t, wv, "-1"]
    if vis == "nocoll" || vis == "nostore" || vis == "bad-op" then (w, vis) else
    let cnt := if vis == "" then 0 else (vis.splitOn ",").length
    (match pos.toNat? with
     | some p =>
       if p < cnt then
         let (w', o) := stepTokens w nested
         (w', vis ++ "|" ++ o)
       else (w, vis ++ "|none")
     | none => (w, "bad-op"))
  | "failop" :: op :: rest =>
    -- the file failed during this call: it reports an I/O error and changes nothing visible;
    -- a failed open creates no store, a store whose FlushRevert failed must be re-opened
    (match op, rest with
     | "revert", [s] => (match s.toNat? with
        | some s => ({ w with stores := assocDel s w.stores }, "err-io")
        | none => (w, "bad-op"))
     | "flush", [_] => stepTokens w (op :: rest)   -- Flush only writes: the armed fault is replayed
     | "copy", [_, _, f2, _] => (match f2.toNat? with
        | some f2 => ({ w with files := assocDel f2 w.files }, "err-io")
        | none => (w, "bad-op"))
     | _, _ => (w, "err-io"))
  | _ => stepTokens w ts

def step (w : World) (line : String) : World × String :=
  stepTokens2 w ((line.splitOn " ").filter (· ≠ ""))

end Gkv
