/-
  A fast executable form of the backward scan `scanRoots` (Gkv/Model/Store.lean), with a kernel-checked
  equality registered as `@[csimp]`.  The specification `scanRoots` is untouched.

  `scanRoots f dflt sz` calls `rootAt f e` at every position `e = sz, sz-1, …`; `rootAt` starts with
  `readAt f (e - 24) 24 = (f.drop (e-24)).take 24`, which walks `e - 24` cells of the list, so k rejected
  positions cost O(k · |f|).  `scanRootsFast` walks a reversed copy of `f.take sz` in step with the
  position: the 12 bytes ending at `e` are then the first 12 cells of the reversed list, and a position
  whose last 12 bytes are not `magicEnd ++ magicEnd` is rejected in O(1) (`List.isPrefixOf` stops at the
  first differing byte; no allocation).  Only at positions that do carry the doubled end marker is
  `rootAt` consulted, exactly as `scanRoots` does.
-/
import Gkv.Model.Store

namespace Gkv

/-- `(magicEnd ++ magicEnd).reverse`, as a literal (checked by `endRev_eq`) -/
def endRev : Bytes := [112, 53, 97, 52, 101, 51, 112, 53, 97, 52, 101, 51]

theorem endRev_eq : endRev = (magicEnd ++ magicEnd).reverse := by decide

/-- the descent of `scanRootsFast`: `rev` is `(f.take sz).reverse` -/
def scanRootsFast.go (f : Bytes) (dflt : Bool) : Nat → Bytes → ScanRes
  | 0, _ => if dflt then .empty else .noRoots
  | sz+1, rev =>
    if sz + 1 ≤ rootsLen then (if dflt then .empty else .noRoots)
    else if endRev.isPrefixOf rev then
      match rootAt f (sz+1) with
      | some roots => .found (sz+1) roots
      | none => go f dflt sz rev.tail
    else go f dflt sz rev.tail

/-- same result as `scanRoots`, but walks a reversed copy of the prefix so that rejecting a position whose
    last 12 bytes are not the doubled end marker costs O(1) -/
def scanRootsFast (f : Bytes) (dflt : Bool) (sz : Nat) : ScanRes :=
  if sz ≤ f.length then scanRootsFast.go f dflt sz (f.take sz).reverse
  else scanRoots f dflt sz

/-- a position whose last 12 bytes are not the doubled end marker is not the end of a root record -/
theorem rootAt_none_of_tail_ne (f : Bytes) (e : Nat) (he : e ≤ f.length) (hr : rootsLen < e)
    (hne : (f.drop (e - 12)).take 12 ≠ magicEnd ++ magicEnd) : rootAt f e = none := by
  have hr' : 44 < e := hr
  unfold rootAt
  simp only [rootsLen, rootsEndLen, readAt]
  have h1 : ¬ e ≤ 44 := by omega
  have h2 : e - 24 + 24 ≤ f.length := by omega
  simp only [h1, h2, if_false, if_true]
  -- the 24-byte tail
  have hX : ((f.drop (e - 24)).take 24).drop 12 = (f.drop (e - 12)).take 12 := by
    rw [List.drop_take, List.drop_drop]
    have : e - 24 + 12 = e - 12 := by omega
    rw [this]
  have hsplit : ((f.drop (e - 24)).take 24).drop 18
      = ((f.drop (e - 12)).take 12).drop 6 := by
    rw [← hX, List.drop_drop]
  by_cases hc : (((f.drop (e - 24)).take 24).drop 12).take 6 ≠ magicEnd
      ∨ ((f.drop (e - 24)).take 24).drop 18 ≠ magicEnd
  · simp [hc]
  · exfalso
    apply hne
    have hc' : (((f.drop (e - 24)).take 24).drop 12).take 6 = magicEnd
        ∧ ((f.drop (e - 24)).take 24).drop 18 = magicEnd := by
      constructor
      · exact Classical.byContradiction fun h => hc (Or.inl h)
      · exact Classical.byContradiction fun h => hc (Or.inr h)
    rw [hX] at hc'
    rw [hsplit] at hc'
    have := List.take_append_drop 6 ((f.drop (e - 12)).take 12)
    rw [hc'.1, hc'.2] at this
    exact this.symm

/-- the first 12 cells of the reversed prefix are the reversed last 12 bytes -/
theorem take_reverse_prefix (f : Bytes) (e : Nat) (he : e ≤ f.length) (h12 : 12 ≤ e) :
    ((f.take e).reverse).take 12 = ((f.drop (e - 12)).take 12).reverse := by
  rw [List.take_reverse, List.length_take, List.drop_take]
  have h1 : min e f.length = e := by omega
  rw [h1]
  have h2 : e - (e - 12) = 12 := by omega
  rw [h2]

theorem isPrefixOf_endRev_iff (f : Bytes) (e : Nat) (he : e ≤ f.length) (h12 : 12 ≤ e) :
    endRev.isPrefixOf (f.take e).reverse = true ↔ (f.drop (e - 12)).take 12 = magicEnd ++ magicEnd := by
  rw [List.isPrefixOf_iff_prefix, List.prefix_iff_eq_take]
  have hl : endRev.length = 12 := rfl
  rw [hl, take_reverse_prefix f e he h12, endRev_eq]
  constructor
  · intro h; exact (List.reverse_inj.mp h).symm
  · intro h; rw [h]

theorem tail_reverse_take (f : Bytes) (sz : Nat) (h : sz + 1 ≤ f.length) :
    ((f.take (sz + 1)).reverse).tail = (f.take sz).reverse := by
  rw [List.take_succ_eq_append_getElem (by omega : sz < f.length)]
  simp only [List.reverse_append, List.reverse_singleton, List.singleton_append, List.tail_cons]

theorem scanRootsFast_go_eq (f : Bytes) (dflt : Bool) :
    ∀ sz, sz ≤ f.length → scanRootsFast.go f dflt sz (f.take sz).reverse = scanRoots f dflt sz
  | 0, _ => by simp [scanRootsFast.go, scanRoots]
  | sz+1, h => by
    have ih := scanRootsFast_go_eq f dflt sz (by omega)
    unfold scanRootsFast.go scanRoots
    by_cases hr : sz + 1 ≤ rootsLen
    · simp only [hr, if_true]
    · simp only [hr, if_false]
      rw [tail_reverse_take f sz h, ih]
      have hr' : rootsLen < sz + 1 := by omega
      have h12 : 12 ≤ sz + 1 := by simp only [rootsLen] at hr'; omega
      by_cases hp : endRev.isPrefixOf (f.take (sz + 1)).reverse = true
      · simp only [hp, if_true]
        rfl
      · simp only [hp]
        have hne : (f.drop (sz + 1 - 12)).take 12 ≠ magicEnd ++ magicEnd :=
          fun hx => hp ((isPrefixOf_endRev_iff f (sz + 1) h h12).mpr hx)
        rw [rootAt_none_of_tail_ne f (sz + 1) h hr' hne]
        simp

theorem scanRootsFast_eq (f : Bytes) (dflt : Bool) (sz : Nat) :
    scanRootsFast f dflt sz = scanRoots f dflt sz := by
  unfold scanRootsFast
  split
  · next h => exact scanRootsFast_go_eq f dflt sz h
  · rfl

@[csimp] theorem scanRoots_eq_fast : @scanRoots = @scanRootsFast := by
  funext f dflt sz
  exact (scanRootsFast_eq f dflt sz).symm

/-! ### the callers compiled before the attribute existed

`@[csimp]` rewrites `scanRoots` only in code compiled where the attribute is visible.  `openStore` and
`revertStore` live in `Gkv/Model/Store.lean` next to `scanRoots`, so their compiled bodies keep calling the
slow scan whatever is imported later (measured: see the end of this file).  These are the same two
definitions with `scanRootsFast` in place of `scanRoots`, again with kernel-checked equalities registered
as `@[csimp]`, so that modules importing this one (`World`, `Driver`, …) call the fast versions. -/

/-- `openStore` with the fast scan -/
def openStoreFast (fid : Nat) (f : Bytes) (cmpOf : Bytes → CmpKind) : OpenRes :=
  if f.length = 0 then .ok ⟨some fid, 0, [], false⟩
  else match scanRootsFast f false f.length with
    | .found e roots =>
      match loadColls f cmpOf roots with
      | some cs => .ok ⟨some fid, e, cs, false⟩
      | none => .corrupt
    | .empty => .ok ⟨some fid, 0, [], false⟩
    | .noRoots => .noRoots

@[csimp] theorem openStore_eq_fast : @openStore = @openStoreFast := by
  funext fid f cmpOf
  unfold openStore openStoreFast
  rw [scanRootsFast_eq]
  rfl

/-- `revertStore` with the fast scan -/
def revertStoreFast (st : Store) (fid : Nat) (f : Bytes) (cmpOf : Bytes → CmpKind) :
    Option (Store × Bytes) :=
  let cur := match scanRootsFast f true st.size with
    | .found e _ => e
    | _ => 0
  let sz := if cur > rootsLen then cur - 1 else cur
  match scanRootsFast f true sz with
  | .found e roots =>
    match loadColls f cmpOf roots with
    | some cs =>
      some ({ st with size := e, colls := cs, file := some fid },
            if st.readOnly then f else f.take e)
    | none => none
  | _ => some ({ st with size := 0, colls := [], file := some fid }, if st.readOnly then f else [])

@[csimp] theorem revertStore_eq_fast : @revertStore = @revertStoreFast := by
  funext st fid f cmpOf
  unfold revertStore revertStoreFast
  simp only [scanRootsFast_eq]
  rfl

end Gkv

#print axioms Gkv.scanRoots_eq_fast
-- 'Gkv.scanRoots_eq_fast' depends on axioms: [propext, Classical.choice, Quot.sound]
#print axioms Gkv.openStore_eq_fast
-- 'Gkv.openStore_eq_fast' depends on axioms: [propext, Classical.choice, Quot.sound]
#print axioms Gkv.revertStore_eq_fast
-- 'Gkv.revertStore_eq_fast' depends on axioms: [propext, Classical.choice, Quot.sound]

/-
  Measurements (40,000 zero bytes, no root record; `/tmp/scanbench.lean`, interpreter via `#eval`):
    importing only Gkv.Model.Store :  scanRoots 3409 ms   openStore 3697 ms   revertStore 3615 ms
    importing Gkv.Model.ScanFast   :  scanRoots   20 ms   openStore   18 ms   revertStore   12 ms
  With only `scanRoots_eq_fast` (no `openStore_eq_fast`), `openStore` stayed at 4148 ms under the import:
  its body was compiled in Store.lean, before the attribute existed.
  Native `gkvdrive`, `decodehex` of the same file, twice: 5.70 s as built; 0.07 s when World.lean imports
  this module (scratch copy of the tree; World.c/Driver.c then reference only the `…Fast` symbols).
-/
