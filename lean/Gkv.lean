import Gkv.Model.Basic
import Gkv.Model.Treap
import Gkv.Model.Codec
import Gkv.Model.Store
import Gkv.Model.Spec
import Gkv.Model.Blocks
import Gkv.Model.World
import Gkv.Proofs.Split
