import Gkv.Model.Driver
open Gkv

partial def loop (h : IO.FS.Stream) (out : IO.FS.Stream) (d : DState) : IO Unit := do
  let line ← h.getLine
  if line.isEmpty then return ()
  let l := line.trimAscii.toString
  if l.isEmpty || l.startsWith "#" then
    out.putStrLn ""
    loop h out d
  else
    let (d', o) := dstep d l
    -- which error a refused call returns is specified nowhere: printed as "err" (the harness does
    -- the same with the package's errors); err-io, err-eof and noroots stay distinct
    let canon := fun (x : String) => if x == "err-ro" || x == "err-arg" || x == "err-nofile" || x == "err-name" then "err" else x
    out.putStrLn ("|".intercalate ((o.splitOn "|").map canon))   -- `|` only separates the nested answer of `nvisit`
    loop h out d'

def main : IO Unit := do
  let stdin ← IO.getStdin
  let stdout ← IO.getStdout
  loop stdin stdout { w := { files := [], stores := [] } }
