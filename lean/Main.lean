import Gkv.Model.Driver
open Gkv

partial def loop (h : IO.FS.Stream) (out : IO.FS.Stream) (d : DState) : IO Unit := do
  let line ← h.getLine
  if line.isEmpty then return ()
  let l := line.trimAscii.toString
  if l.isEmpty || l.startsWith "#" then
    out.putStrLn ""
    loop h out d
  else
    let (d', o) := dstep d l
    out.putStrLn o
    loop h out d'

def main : IO Unit := do
  let stdin ← IO.getStdin
  let stdout ← IO.getStdout
  loop stdin stdout { w := { files := [], stores := [] } }
