import Gkv.Model.World
open Gkv

partial def loop (h : IO.FS.Stream) (out : IO.FS.Stream) (w : World) : IO Unit := do
  let line ← h.getLine
  if line.isEmpty then return ()
  let l := line.trimAscii.toString
  if l.isEmpty || l.startsWith "#" then
    out.putStrLn ""
    loop h out w
  else
    let (w', o) := step w l
    out.putStrLn o
    loop h out w'

def main : IO Unit := do
  let stdin ← IO.getStdin
  let stdout ← IO.getStdout
  loop stdin stdout { files := [], stores := [] }
