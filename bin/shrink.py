#!/usr/bin/env python3
"""usage: shrink.py <dir with ops.txt impl.txt model.txt> [k]  — shrink the k-th mismatching history"""
import sys, os
sys.path.insert(0, os.path.dirname(os.path.abspath(__file__)))
import vlib
d = sys.argv[1]
k = int(sys.argv[2]) if len(sys.argv) > 2 else 0
ops = vlib.read_lines(os.path.join(d, "ops.txt"))
impl = vlib.read_lines(os.path.join(d, "impl.txt"))
model = vlib.read_lines(os.path.join(d, "model.txt"))
bad = []
for (s, e) in vlib.split_histories(ops):
    if any(impl[i] != model[i] for i in range(s, min(e, len(impl), len(model)))):
        bad.append((s, e))
print("mismatching histories:", len(bad), file=sys.stderr)
s, e = bad[k]
small = vlib.shrink(ops[s:e], budget_s=120)
i, m = vlib.eval_history(small)
for l, a, b in zip(small, i, m):
    print(l[:150], "=>", a[:80], "|", b[:80] if a != b else "")
