"""Shared machinery of the /verif checks: build steps, differential runs, shrinking, evidence."""
import json
import os
import subprocess
import sys
import time
import hashlib

ROOT = os.path.dirname(os.path.dirname(os.path.abspath(__file__)))
LEAN = os.path.join(ROOT, "lean")
HARNESS_DIR = os.path.join(ROOT, "harness")
HARNESS = os.path.join(HARNESS_DIR, "bin", "harness")
EXTRACT = os.path.join(HARNESS_DIR, "bin", "extract")
DRIVER = os.path.join(LEAN, ".lake", "build", "bin", "gkvdrive")
WORK = os.path.join(ROOT, "work")
REPLAYS = os.path.join(ROOT, "replays")
EVIDENCE = os.path.join(ROOT, "evidence")
CORPUS = os.path.join(ROOT, "corpus")

# the repository under test: /repo, unless a background sweep points at a snapshot of it
REPO = os.environ.get("VERIF_REPO") or os.environ.get("VP_RUN_REPO") or "/repo"

GOENV = dict(os.environ, GOFLAGS="-mod=mod", GOPROXY="off", GOSUMDB="off", GOTOOLCHAIN="local",
             GOCACHE=os.environ.get("GOCACHE", os.path.join(ROOT, "work", "gocache")))

TRUSTED_AXIOMS = {"propext", "Classical.choice", "Quot.sound"}


def log(*a):
    print(*a, file=sys.stderr, flush=True)


def sh(cmd, cwd=None, env=None, timeout=None, inp=None):
    p = subprocess.run(cmd, cwd=cwd, env=env, timeout=timeout, input=inp,
                       stdout=subprocess.PIPE, stderr=subprocess.STDOUT, text=True)
    return p.returncode, p.stdout


# ---------------------------------------------------------------------------------------------
# builds (always from /repo's current working tree)


def build_harness():
    """go build -tags verif against /repo's working tree.  Returns (ok, output)."""
    os.makedirs(os.path.join(HARNESS_DIR, "bin"), exist_ok=True)
    os.makedirs(WORK, exist_ok=True)
    src = os.path.join(REPO, "go.sum")
    if os.path.exists(src):
        with open(src) as f, open(os.path.join(HARNESS_DIR, "go.sum"), "w") as g:
            g.write(f.read())
    for b in (HARNESS, EXTRACT):
        if os.path.exists(b):
            os.remove(b)
    if REPO != "/repo":
        sh(["go", "mod", "edit", "-replace=github.com/cbehopkins/gkvlite=" + REPO], cwd=HARNESS_DIR, env=GOENV)
    cover = ["-cover", "-coverpkg=github.com/cbehopkins/gkvlite,gkvverif/cmd/harness"] if os.environ.get("VERIF_COVER") else []  # measurement aid, see bin/coverage
    rc, out = sh(["go", "build", "-tags", "verif"] + cover + ["-o", HARNESS, "./cmd/harness"], cwd=HARNESS_DIR, env=GOENV)
    if rc != 0:
        return False, out
    rc, out2 = sh(["go", "build", "-o", EXTRACT, "./cmd/extract"], cwd=HARNESS_DIR, env=GOENV)
    return rc == 0, out + out2


def run_extract():
    """Regenerate lean/Gkv/Gen/*.lean from /repo.  Returns (ok, output)."""
    gen = os.path.join(LEAN, "Gkv", "Gen")
    os.makedirs(gen, exist_ok=True)
    for f in os.listdir(gen):
        if f.endswith(".lean"):
            os.remove(os.path.join(gen, f))
    rc, out = sh([EXTRACT, "-repo", REPO, "-out", gen], env=GOENV)
    if rc != 0:
        return False, out
    rc, out2 = sh([EXTRACT, "-repo", REPO, "-pkg", "tools/view", "-out", gen], env=GOENV)
    return rc == 0, out + out2


def lake_build(targets):
    rc, out = sh(["lake", "build"] + targets, cwd=LEAN, timeout=3000)
    return rc == 0, out


def axioms_of(module, theorems):
    """#print axioms for each theorem; returns {thm: [axioms] or None if it failed}."""
    src = "import %s\n" % module + "".join("#print axioms %s\n" % t for t in theorems)
    path = os.path.join(WORK, "audit_%s.lean" % module.replace(".", "_"))
    os.makedirs(WORK, exist_ok=True)
    with open(path, "w") as f:
        f.write(src)
    rc, out = sh(["lake", "env", "lean", path], cwd=LEAN, timeout=1200)
    res = {t: None for t in theorems}
    cur = None
    buf = out.replace("\n  ", " ")
    for line in buf.splitlines():
        line = line.strip()
        if line.startswith("'") and "depends on axioms:" in line:
            name = line[1:line.index("'", 1)]
            ax = line[line.index("[") + 1:line.rindex("]")]
            res[name] = [a.strip() for a in ax.split(",") if a.strip()]
        elif line.startswith("'") and "does not depend on any axioms" in line:
            name = line[1:line.index("'", 1)]
            res[name] = []
    return res, out


def import_closure(modules):
    """the Gkv.* modules transitively imported by `modules` (by reading the import lines)"""
    seen, todo = set(), list(modules)
    while todo:
        m = todo.pop()
        if m in seen or not m.startswith("Gkv"):
            continue
        path = os.path.join(LEAN, *m.split(".")) + ".lean"
        if not os.path.exists(path):
            continue
        seen.add(m)
        for line in open(path, encoding="utf-8"):
            line = line.strip()
            if line.startswith("import "):
                todo.append(line.split()[1])
            elif line and not line.startswith("--") and not line.startswith("/-") and not line.startswith("open") and not line.startswith("import"):
                if not line.startswith("-") and not line.startswith("*") and "import" not in line:
                    pass
    return seen


def grep_forbidden(modules=None):
    """source scan for sorry/admit/axiom/native_decide/... outside comments, over the modules
    the property's theorems are built from (plus the model driver)"""
    import re
    bad = []
    pat = re.compile(r"\b(sorry|admit|native_decide|bv_decide|implemented_by|unsafe)\b|^axiom\s|maxHeartbeats 0")
    files = []
    if modules is None:
        for dp, _, fs in os.walk(os.path.join(LEAN, "Gkv")):
            files += [os.path.join(dp, fn) for fn in fs if fn.endswith(".lean")]
    else:
        for m in sorted(import_closure(list(modules) + ["Gkv.Model.World"])):
            files.append(os.path.join(LEAN, *m.split(".")) + ".lean")
    for full in files:
        if True:
            dp, fn = os.path.split(full)
            incomment = 0
            for i, line in enumerate(open(os.path.join(dp, fn), encoding="utf-8")):
                code = line
                # strip block comments (no nesting in this project) and line comments
                out = ""
                j = 0
                while j < len(code):
                    if incomment:
                        k = code.find("-/", j)
                        if k < 0:
                            j = len(code)
                        else:
                            incomment = 0
                            j = k + 2
                    else:
                        k = code.find("/-", j)
                        l = code.find("--", j)
                        if l >= 0 and (k < 0 or l < k):
                            out += code[j:l]
                            j = len(code)
                        elif k >= 0:
                            out += code[j:k]
                            incomment = 1
                            j = k + 2
                        else:
                            out += code[j:]
                            j = len(code)
                if pat.search(out):
                    bad.append("%s:%d: %s" % (os.path.join(dp, fn), i + 1, line.strip()))
    return bad


# ---------------------------------------------------------------------------------------------
# differential runs


def run_model(ops_path, out_path):
    with open(ops_path) as fi, open(out_path, "w") as fo:
        p = subprocess.run([DRIVER], stdin=fi, stdout=fo, stderr=subprocess.PIPE, text=True)
    return p.returncode, p.stderr


def run_impl(ops_path, out_path, timeout=600):
    try:
        p = subprocess.run([HARNESS, "run", "-in", ops_path, "-out", out_path, "-rw", ops_path + ".rw"], stdout=subprocess.PIPE,
                           stderr=subprocess.PIPE, text=True, timeout=timeout, env=GOENV)
        return p.returncode, p.stderr[-2000:]
    except subprocess.TimeoutExpired:
        return 124, "timeout"


def read_lines(path):
    with open(path, encoding="utf-8", errors="replace") as f:
        return f.read().split("\n")[:-1] if os.path.getsize(path) else []


def split_histories(ops):
    """indices [start, end) of each history (a history starts at a `reset` line)"""
    starts = [i for i, l in enumerate(ops) if l.strip() == "reset"]
    if not starts or starts[0] != 0:
        starts = [0] + starts
    return [(s, e) for s, e in zip(starts, starts[1:] + [len(ops)])]


def first_mismatch(ops, impl, model):
    """(history_index, line_index_in_file) of the first differing observation, or None"""
    n = min(len(impl), len(model))
    for i in range(n):
        if impl[i] != model[i]:
            return i
    if len(impl) != len(model) or len(impl) < len(ops):
        return n
    return None


def second_pass(ops, impl):
    """Some observations of the implementation are INPUT to the model (two-pass protocol):
    `kreads F` (the file reads a key-only call made) becomes `readsok F <reads>` for the model,
    which answers ok / bad:value-bytes-read.  Returns (ops for the model, impl obs to compare)."""
    mo, ic = [], []
    for i, l in enumerate(ops):
        o = impl[i] if i < len(impl) else None
        if l.startswith("kreads ") and o is not None and not o.startswith(("panic", "hang", "dead")):
            mo.append("readsok " + l.split()[1] + ((" " + o) if o else ""))
            ic.append("ok")
        else:
            mo.append(l)
            if o is not None:
                ic.append(o)
    return mo, ic


def eval_history(lines, tag="tmp"):
    """run one history on both sides; returns (impl_obs, model_obs)"""
    os.makedirs(WORK, exist_ok=True)
    op = os.path.join(WORK, "%s_%d.ops" % (tag, os.getpid()))
    ip, mp = op + ".impl", op + ".model"
    with open(op, "w") as f:
        f.write("\n".join(lines) + "\n")
    rc, err = run_impl(op, ip, timeout=120)
    impl = read_lines(ip) if os.path.exists(ip) else []
    if rc != 0:
        impl = impl + ["crash:%d" % rc]
    # Model L's operations carry what only the implementation knows (the cached view, the random
    # descent of an eviction): the model gets those lines as THIS run produced them
    if os.path.exists(op + ".rw"):
        rwl = read_lines(op + ".rw")
        os.remove(op + ".rw")
        if len(rwl) == len(lines):
            lines = [r if l.split(" ")[0] in ("cstate", "cstatein", "cevict") else l for l, r in zip(lines, rwl)]
    mlines, impl = second_pass(lines, impl)
    with open(op, "w") as f:
        f.write("\n".join(mlines) + "\n")
    run_model(op, mp)
    model = read_lines(mp)
    for p in (op, ip, mp):
        if os.path.exists(p):
            os.remove(p)
    return impl, model


def mismatch_kind(i, m):
    """coarse class of a disagreement, used so that shrinking keeps the same failure"""
    def k(o):
        for pre in ("panic", "hang", "crash", "bad:", "err", "dead"):
            if o.startswith(pre):
                return pre
        if o in ("nostore", "nocoll", "nofile", "bad-op", "missing"):
            # the harness's own answer for "there is no such store / collection / file": a candidate
            # that fails like this has lost its subject, it is not a smaller witness of a value error
            return "noobj"
        return "value"
    return k(i) + "/" + k(m)


def first_diff_kind(lines, ignore=()):
    """(kind, op-name) of the first disagreement of a history (at an operation not in `ignore`),
    or None"""
    impl, model = eval_history(lines, "shrink")
    n = min(len(impl), len(model))
    for j in range(n):
        if impl[j] != model[j]:
            op = lines[j].split(" ")[0] if j < len(lines) else ""
            if op in ignore:
                continue
            return (mismatch_kind(impl[j], model[j]), op)
    if len(impl) != len(model):
        return ("length", "")
    return None


def shrink(lines, budget_s=60, ignore=()):
    """delta-debugging on operation lines; a candidate is kept only if its first disagreement
    (outside `ignore`) is of the same kind, at the same kind of operation, as the original one"""
    t0 = time.time()
    want = first_diff_kind(lines, ignore)
    if want is None:
        return lines

    def differs(cand):
        return first_diff_kind(cand, ignore) == want
    cur = list(lines)
    n = 2
    while len(cur) >= 2 and time.time() - t0 < budget_s:
        chunk = max(1, len(cur) // n)
        reduced = False
        for start in range(0, len(cur), chunk):
            cand = cur[:start] + cur[start + chunk:]
            if cand and differs(cand):
                cur = cand
                n = max(n - 1, 2)
                reduced = True
                break
            if time.time() - t0 > budget_s:
                break
        if not reduced:
            if chunk == 1:
                break
            n = min(n * 2, len(cur))
    # cut everything after the first differing line
    impl, model = eval_history(cur, "shrink")
    for j in range(min(len(impl), len(model))):
        if impl[j] != model[j] and cur[j].split(" ")[0] not in ignore:
            cur = cur[:j + 1]
            break
    return cur


def write_replay(prop, seed, lines, note):
    os.makedirs(REPLAYS, exist_ok=True)
    path = os.path.join(REPLAYS, "%s-%s.ops" % (prop, seed))
    with open(path, "w") as f:
        head = [l for l in lines if l.startswith("#!")]
        for h in head:
            f.write(h + "\n")
        for n in note:
            f.write("# " + n + "\n")
        f.write("\n".join(l for l in lines if not l.startswith("#!")) + "\n")
    return path


# ---------------------------------------------------------------------------------------------
# known findings


def load_known():
    p = os.path.join(ROOT, "known_findings.json")
    if not os.path.exists(p):
        return {"findings": [], "fixed": []}
    return json.load(open(p))


# ---------------------------------------------------------------------------------------------
# evidence


def write_evidence(prop, tier, seed, level, coverage, assumptions, wall, violations):
    os.makedirs(EVIDENCE, exist_ok=True)
    ev = {"property_id": prop, "tier": tier, "seed": int(seed), "level": level, "coverage": coverage,
          "assumptions": assumptions, "wall_s": round(wall, 2), "violations": violations}
    with open(os.path.join(EVIDENCE, "%s.json" % prop), "w") as f:
        json.dump(ev, f, indent=1)
    return ev
