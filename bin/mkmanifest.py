#!/usr/bin/env python3
"""Regenerates MANIFEST.json from the table below (kept next to bin/check's PROPS)."""
import json, os, subprocess
ROOT = os.path.dirname(os.path.dirname(os.path.abspath(__file__)))

CLAIMED = {
 "C01": ("Lean proof of sorted-map refinement (split/union/join treap) + differential correspondence",
         "Theorems C01.refines_sorted_map / reads_agree / invariants hold for every Set/Delete history and every TransCmp comparator; Machine.refinement extends it to stores with Flush/re-open. The executable model is run against the real package on generated histories (memory and file stores, flush/evict/re-open placement, malformed items) and every API result is compared.",
         "Model hand-written; tie = differential runs on generated histories; lengths < 2^32."),
 "C02": ("Lean proof: flush_then_open + history refinement Machine.reopen_shows_last_flush; correspondence on file images",
         "For every history of collection ops, Set/Delete, Flush and re-open (to any depth), re-opening shows exactly the state at the last Flush (theorem reopen_is_last_flush; side conditions: plain names, sizes < 2^32). The Go package and the model are compared on full state dumps and byte-exact file images after flushes and re-opens.",
         "JSON names with escapes are covered by correspondence only (root_roundtrip_partial)."),
 "C06": ("Lean proof: visit = foldUntil over filtered in-order list with depths; correspondence",
         "ascend_exact/descend_exact: for every search tree, target, visitor and state, the visit delivers exactly the filtered in-order items with true depths and stops after the first rejection. Compared against the package for both directions, value modes, targets and stop positions in all cache states.",
         "Iterators are compared through the c18 stream once registered."),
 "C08": ("Lean proof: scanRoots_revert / revertStore_prev / revertStore_none; divergence of the pinned loop; correspondence",
         "FlushRevert lands on the greatest complete root record below the current end and truncates there, or empties the store; the scan is total by structural recursion (the pinned loop is proved to diverge: defect F2, fixed). Compared on histories with many flushes/reverts/re-opens; hangs are caught by a watchdog.",
         "After a failed Flush see known finding F10 (C07)."),
 "C10": ("Lean proof of the version/mark/reclaim protocol (safe_reachable) + heap-invariant evaluation on the real heap",
         "For every sequence of acquire/release/load/mutate events and every choice of freed nodes no node of a live version is freed. The harness evaluates the invariant clauses on the implementation's heap (free list, marks, refcounts via verif hooks) after every step of histories with snapshots, replaced/removed collections, nested visits, foreign-store churn.",
         "Mutation is one atomic event in the abstract protocol; node identity abstracted to ids."),
 "C12": ("Lean proof: Machine.refinement with SetCollection/RemoveCollection; correspondence",
         "The store refines the specification in which SetCollection keeps/creates, RemoveCollection drops, names are sorted, durability only at Flush; compared against the package on names and contents after every step and re-open.",
         "SetCollection on an existing name is generated with the same comparator kind."),
 "C13": ("Lean proof: BST/AggOK invariants, heap order under NoLowerOverwrite, canonical_unique; shape correspondence",
         "invariants hold after every history; heap order under the stated hypothesis (and a proved counterexample without it); with distinct priorities the in-order depth list is a function of the item set. The package's tree (depths via the Ex visitor, per-node aggregates via the verif walk) is compared with the model's shape.",
         "Under tied priorities shapes are compared with the model (both follow the same tie rule)."),
 "C16": ("Lean proof: len_eq, visitBlocks_perm, visitRandom_perm for every size; correspondence at sizes 0..70, 1023..1025, 2047..2049",
         "For every search tree and every permuting mangler/shuffle the block visitors deliver a permutation of the items; Len is exact. Compared (as sorted multisets) against the package for every n in 0..70 and around 1024/2048 (thorough: 3072, 5000, random sizes).",
         "Early stop inside a block is not part of the compared observable."),
}

PENDING = {
 "C03": "check being built in this session (crash-image stream); theorems already in lean/Gkv/Props/C03.lean",
 "C04": "check being built in this session (snapshot stream runs; property module pending)",
 "C05": "check being built in this session (deterministic scheduler stream); theorems in lean/Gkv/Props/C05.lean",
 "C07": "check being built in this session (fault stream runs; property module pending)",
 "C09": "check being built in this session (write-log stream); theorems in lean/Gkv/Props/C09.lean",
 "C11": "check being built in this session",
 "C14": "check being built in this session; theorems in lean/Gkv/Props/C14.lean",
 "C15": "check being built in this session (refcount stream runs; property module pending)",
 "C17": "check being built in this session",
 "C18": "check being built in this session; theorems in lean/Gkv/Props/C18.lean",
 "C19": "check being built in this session",
}

def main():
    hooks = subprocess.run(["git", "-C", "/repo", "log", "--format=%H %s"], stdout=subprocess.PIPE, text=True).stdout.splitlines()
    hook_commits = [l.split(" ")[0] for l in hooks if l.split(" ", 1)[1].startswith("verif hooks")]
    checks = []
    for pid in sorted(CLAIMED):
        tech, text, note = CLAIMED[pid]
        checks.append({
            "property_id": pid,
            "quick_cmd": "bin/check %s --tier quick" % pid,
            "thorough_cmd": "bin/check %s --tier thorough" % pid,
            "evidence_file": "evidence/%s.json" % pid,
            "replay_cmd_template": "bin/check %s --replay {path}" % pid,
            "engine": "lean4-proof+correspondence",
            "level_claimed": {"category": "proof", "text": text, "design_ref": "DESIGN.md section 6, " + pid},
            "level_note": note + " Trusted base: Lean kernel, axioms propext/Classical.choice/Quot.sound, harness+memfile, translator, verif hooks (DESIGN.md section 7).",
            "technique": tech,
        })
    m = {
        "version": 1,
        "setup_cmd": "bin/setup",
        "hooks": {
            "guard": "verif",
            "enable": "go build -tags verif (harness module with replace => /repo)",
            "baseline_off_cmd": "cd /repo && go test -count=1 -vet=off ./...",
            "source_commits": hook_commits,
            "add_only": True,
        },
        "engines": [{"name": "lean4-proof+correspondence", "path": "bin/check",
                     "serves_properties": sorted(CLAIMED),
                     "kind_free_text": "Lean 4 theorems about an executable model (lean/Gkv) + differential correspondence of that model with the Go package (harness/) + regenerated fact tables (harness/cmd/extract)"}],
        "checks": checks,
        "not_applicable": [{"property_id": p, "reason": PENDING[p]} for p in sorted(PENDING) if p not in CLAIMED],
        "notes": "All checks rebuild harness and translator from /repo's working tree, regenerate lean/Gkv/Gen, rebuild the Lean modules, audit axioms, then run the correspondence streams. VERIF_SEED / VERIF_TIER are honoured.",
    }
    with open(os.path.join(ROOT, "MANIFEST.json"), "w") as f:
        json.dump(m, f, indent=1)
    print("claimed", len(checks), "pending", len(m["not_applicable"]))

if __name__ == "__main__":
    main()
