#!/usr/bin/env python3
"""Regenerates MANIFEST.json from the table below (kept next to bin/check's PROPS)."""
import json, os, subprocess
ROOT = os.path.dirname(os.path.dirname(os.path.abspath(__file__)))

CLAIMED = {
 "C01": ("Lean proof of sorted-map refinement (split/union/join treap) + differential correspondence",
         "Theorems C01.refines_sorted_map / reads_agree / invariants hold for every Set/Delete history and every TransCmp comparator; Machine.refinement extends it to stores with Flush/re-open. The executable model is run against the real package on generated histories (memory and file stores, flush/evict/re-open placement, malformed items) and every API result is compared. Model L (Model/Cache.lean: nodeLoc.read, itemLoc.read, node.Evict, GetItem, walk, evictSomeItems on a tree with explicit cache state) with cache_invisible: any history of lookups, Min/Max and evictions from ANY cached view of a coherent tree answers as the abstract tree does; stream C19L compares its answers, file reads and cache transitions with the package exactly (the cached view is read through the verif hook VerifCacheState).",
         "Model hand-written; tie = differential runs on generated histories; lengths < 2^32. Profile C01a runs the convenience API (SetAny/GetAny/DeleteAny/ExistAny over every argument type of toBa, Set, Name, Stats) against Model/AnyKey.lean; the priority Set draws is unspecified and is read back, not compared."),
 "C02": ("Lean proof: flush_then_open + history refinement Machine.reopen_shows_last_flush; correspondence on file images",
         "For every history of collection ops, Set/Delete, Flush and re-open (to any depth), re-opening shows exactly the state at the last Flush (theorem reopen_is_last_flush; side conditions: plain names, sizes < 2^32). The Go package and the model are compared on full state dumps and byte-exact file images after flushes and re-opens.",
         "Collection names that are not valid UTF-8 cannot be carried by the JSON root record (defect F18, repaired: Flush refuses them; corpus/F18; the model's flush has the same guard and profiles C02/C12 generate such names). The history theorem's side condition excludes collection names that need JSON escapes; the root-record round trip for such names is C14.root_roundtrip, their behaviour in histories is covered by the correspondence runs (the name pool contains them)."),
 "C06": ("Lean proof: visit = foldUntil over filtered in-order list with depths; correspondence",
         "ascend_exact/descend_exact: for every search tree, target, visitor and state, the visit delivers exactly the filtered in-order items with true depths and stops after the first rejection. Compared against the package for both directions, value modes, targets and stop positions in all cache states.",
         "lazy_visit_exact: visitNodes on the lazily loaded tree of Model L (loads, second item read, eviction on the way out) hands the visitor Model A's sequence from any cached view; stream C19L (cvisit) compares what the Ex visitors are handed, every file read and the cached view afterwards. Iterators are compared through the c18 stream; the C12n profile (no load-time comparator callback, SetCollection installs the comparator after every open) runs here too; so does the `Chain` step (a treap made a path of 66-80 nodes by caller-chosen priorities)."),
 "C08": ("Lean proof: scanRoots_revert / revertStore_prev / revertStore_none; divergence of the pinned loop; correspondence",
         "FlushRevert lands on the greatest complete root record below the current end and truncates there, or empties the store; the scan is total by structural recursion (the pinned loop is proved to diverge: defect F2, fixed). Compared on histories with many flushes/reverts/re-opens; hangs are caught by a watchdog.",
         "FlushRevert after a FAILED Flush was defect F10 (repaired); the fault stream reverts directly after failed flushes. `c08s` sweeps the size of the flush being reverted over across every power of two from 512 to 8192. KNOWN FINDING F17 (known_findings.json, corpus/F17, Lean: history_refinement_fails_on_forged_root): a stored value that is a complete root record naming its own offset is taken for the previous flush - the property is known to fail there; history_refinement_partial carries the hypothesis that excludes it. Stream C08f compares FlushRevert with the SPECIFICATION (ghost stack of flushed states in the model driver), one history in three with such a value; those print KNOWN-FINDING, every other disagreement is reported. Collection names of 4100-4300 bytes (root records above 4 KiB) occur in one history in five."),
 "C10": ("Lean proof of the version/mark/reclaim protocol (safe_reachable) + heap-invariant evaluation on the real heap",
         "For every sequence of acquire/release/load/mutate events and every choice of freed nodes no node of a live version is freed. Static: every call of the marking / reclaiming / freeing / version-counting functions and every assignment to the protocol's fields (regenerated Gen/Sites.lean) is the reviewed one (every_mark_and_free_site_is_an_event, protocol_fields_written_only_by_the_protocol). The harness evaluates the invariant clauses on the implementation's heap (free list, marks, refcounts via verif hooks) after every step of histories with snapshots, replaced/removed collections, nested visits, foreign-store churn.",
         "Mutation is one atomic event in the abstract protocol; node identity abstracted to ids. The protocol theorem presupposes that readers acquire and release the version they read: every_reader_holds_its_version decides that on the regenerated pin table."),
 "C12": ("Lean proof: Machine.refinement with SetCollection/RemoveCollection; correspondence",
         "The store refines the specification in which SetCollection keeps/creates, RemoveCollection drops, names are sorted, durability only at Flush; compared against the package on names and contents after every step and re-open.",
         "In the main profile a name always maps to the same comparator; profile C12n opens stores WITHOUT the load-time comparator callback and installs each comparator with SetCollection on the existing name (the documented pattern), so 'only installs the new comparator' is exercised with a real change. Static: cas_compares_what_was_read (regenerated Gen/Cas.lean); supplementary: no_lost_collection_update on Model CasLoop (schedules are outside C12's quantifier). Use of a REPLACED handle is use-after-close (nil dereference) and is not covered."),
 "C13": ("Lean proof: BST/AggOK invariants, heap order under NoLowerOverwrite, canonical_unique; shape correspondence",
         "invariants hold after every history; heap order under the stated hypothesis (and a proved counterexample without it); with distinct priorities the in-order depth list is a function of the item set. The package's tree (depths via the Ex visitor, per-node aggregates via the verif walk) is compared with the model's shape.",
         "Under tied priorities shapes are compared with the model (both follow the same tie rule). Depths are also compared for visits with arbitrary targets (C13 and C13any profiles). Profile C12n (comparator installed by SetCollection after a callback-less open) and, in C13any, the `Chain` step (a path of 66-80 nodes) run here too."),
 "C16": ("Lean proof: len_eq, visitBlocks_perm, visitRandom_perm for every size; correspondence at sizes 0..70, 1023..1025, 2047..2049",
         "For every search tree and every permuting mangler/shuffle the block visitors deliver a permutation of the items; Len is exact. Compared (as sorted multisets) against the package for every n in 0..70 and around 1024/2048 (thorough: 3072, 5000, random sizes).",
         "Early stop inside a block is not part of the compared observable. Besides the size sweep, profile C16 measures (Len, both block enumerations) between mutations and under snapshots."),
 "C03": ("Lean proof: scan_crash_atomic / openStore_crash_atomic (greatest valid root end), append-only prefix; crash-image enumeration",
         "For every image that keeps the bytes below the last durable end E and has no complete root record above E, opening lands exactly on the flush that ended at E; every Flush write (torn or not) keeps that prefix. The harness cuts the write log at every write boundary, every byte of root-record writes and sampled (thorough: all) bytes of other writes, with magic-marker values, altered copies of root records, VERBATIM copies of earlier root records, correctly framed records whose payload is not a root map, 16 trailer-position bytes (top bit set / clear / random) behind a doubled end marker, and a tail-length boundary sweep (junk of every length around each power of two from 512 to 8192) as junk, re-opens each image with the real package and the model, and continues a sample of recovered stores.",
         "The junk hypothesis (no complete self-consistent root record above E) is the property's own exclusion."),
 "C05": ("Lean proof on interleaving Model C (all schedules) + lock-discipline theorems on regenerated lock tables + deterministic-scheduler trace validation",
         "read_one_version, no_lost_update, flush_persists_current_versions, flush_name_order, no_deadlock for all programs and all schedules of the model; on Model P (Flush/Snapshot pinning while the mutator replaces collection handles, defect F21): pinning_never_touches_a_closed_handle, pins_taken_in_name_order, pinning_completes_once_the_map_is_quiet for every schedule, the unrepaired walk as a proved counterexample, and the regenerated fact that Flush and Snapshot pin through rootAddRefIfOpen; no mutex held across file I/O or callbacks and a fixed lock order (decide on tables regenerated from /repo). The real package is run under a seeded cooperative scheduler (yield hooks, file calls, visitor callbacks) and every read / every concurrent Flush image is validated against the version it pinned.",
         "PARTIAL by nature: Go memory-model races on unsynchronised cache fills (the package has them: DESIGN.md section 10) are outside every model; a supplementary stream c05s runs real goroutines (one mutator, one flusher, readers; single-version visits, no panic/hang, final content) - it searches, it proves nothing, its replays are not deterministic; schedules are sampled, mutation marking is treated as atomic in Model H."),
 "C07": ("Lean proof of fault-injected Flush (any k-th write, any torn length): reported, changes nothing, keeps durable bytes, retry is ordinary; fault enumeration at every file call",
         "Theorems over the model's fault plan; the harness injects one fault at every individual ReadAt/WriteAt/Stat/Truncate (sampled in quick, all in thorough; torn writes of sampled/all lengths), continues the history, and compares (a) with the fault-aware model, (b) with the specification 'as if the failed call had never been made', plus heap-invariant checks after every failed call.",
         "Read faults are modelled as 'no state change' (the model has no cache); their real-code effect is covered by enumeration. KNOWN FINDING F14 (known_findings.json, corpus/F14): Exist(key) has no error result and answers false for a stored key when a read fails - the property is known to fail there; the check injects faults into Exist, prints KNOWN-FINDING for exactly that shape (failed call is an `exist`, answer `false`) and still reports every other failed call that reports success. EvictSomeItems (best-effort cache hint, no error result, no answer to get wrong) is not an injected operation."),
 "C09": ("Lean proof: Flush log beyond durable end, prefix unchanged (with faults), revert truncation; decide on regenerated call graph: no read-only entry reaches WriteAt/Truncate",
         "Dynamic theorems for every Flush/CopyTo/FlushRevert of the model; static theorem no_write_reachable over the call graph regenerated from /repo on every run (closure certificate checked in Lean), write_sites/truncate_sites equalities, tools/view read-only. The memfile's complete call log is checked call by call (appendcheck) and compared with the model's write log; CopyTo onto a file that already holds a store is checked the same way (destination log and durable prefix).",
         "Soundness of the translator's call graph (closures, method values, interface dispatch, json reflection edges) is trusted."),
 "C11": ("Lean proof: copyTo_contents for every flushEvery, independence of flushEvery, destination-only writes; correspondence",
         "copy_equivalent holds for every source and every flushEvery; copy_holds_only_live_item_records for every flushEvery > 0; the package's CopyTo (writable stores, snapshots, evicted and re-opened sources, fe in {-1,0,1,2,3,5,100}) is compared on destination contents, destination image and re-opened destination, source contents and source write log.",
         "'holds only live data (no superseded item versions)' is copy_holds_only_live_item_records: on the model, for fe > 0 and well-formed sources, the item records written are exactly (as a multiset) the destination's live (item, location) pairs, pairwise disjoint and inside the file; node records are superseded by periodic flushes and the theorem does not say otherwise. It reaches the code through the byte-exact comparison of destination images with the model's in the stream. The generator's `Chain` step copies sources whose tree is a path of 66-80 nodes (caller-chosen priorities). CopyTo of a store holding a collection whose name is not valid UTF-8 (the destination's Flush refuses since F18) is not generated."),
 "C14": ("Lean proof: codec round trips, root record, flush_then_open with the independent decoder; decide on regenerated constants; decoder run on the implementation's bytes",
         "Item/node/root round trips, decode_flushed_file, coherent (children-before-parent) layout; obligations on constants regenerated from /repo (version, magics, header offsets, record lengths, JSON tags, byte order). Every flushed image of the package is decoded by the Lean codec and compared with what the package reads back, and byte-compared with the model's image.",
         "root_roundtrip covers every collection name (Go's JSON escaping included); root_roundtrip_partial is the earlier escape-free statement. The profile also fills 70-260 items into one flush."),
 "C17": ("Lean proof: chunked value writes/reads equal single ones; decide on regenerated callback-dispatch tables (one dispatch site per callback, Item.Val measured/moved only in the wrappers, derived stores inherit the struct); correspondence under random subsets of callbacks",
         "In the model a neutral callback is the identity; the non-trivial part (chunked ItemValWrite/ItemValRead) is proved. The package runs the C01/C02/C06/C14 observables with random subsets (thorough: many more) of the eight callbacks installed and is compared with the callback-free model, file images included.",
         "Chunk sizes 3 (write) and 5 (read) in the harness callbacks; profile C17c keeps values chunked IN MEMORY as tools/slab does (Item.Val = first chunk, rest in Transient; found defect F12); C19's read-log checks also run under every neutral callback subset (C19cb); profile C17p installs a load-time comparator callback that knows only some names (the rest get theirs from SetCollection after every open) and reads through snapshots; a non-identity encode/decode hook pair (outside 'neutral') runs under C04 (C04t)."),
 "C18": ("Lean proof on the two-goroutine iterator model (all programs, all interleavings) + lock-discipline tables; iterator and nested-callback correspondence",
         "no_panic, no_deadlock, terminates, producer_exits_and_unpins, next_after_end_is_false, observable_deterministic for every item list, consumer program and interleaving; callbacks never run under a mutex (regenerated tables). Real iterators are driven with random Next/Close programs; outputs, goroutine count and version pin are checked; visitor callbacks issue nested reads and mutations.",
         "PARTIAL: real scheduler interleavings of the two goroutines are sampled, not enumerated. An iterator that is exhausted is NOT closed by the harness (the property says 'after Close() or exhaustion'); an iterator abandoned mid-way without Close is outside the property. Static: pins_released_on_every_path (regenerated Gen/Pins.lean). The real-goroutine stress stream c05s (abandoned iterators + AllocStats against dying versions) and a fault stream with iterators run here too."),
 "C15": ("Lean proof of the reference accounting invariant over all event sequences + leak-freedom of the version protocol when no slot is copied unloaded + regenerated obligation on the code's slot copies; callback-log predicates on the implementation",
         "accounting / never_negative / reachable_positive / closed_balanced_partial for every precondition-respecting sequence of the seven reference events; nodes_freed_or_orphan, nodes_all_freed_if_no_load_under_replaced, nodes_not_all_freed on the version protocol; slots_loaded_before_copied (decide over Gen/SlotCopies.lean, regenerated from /repo); every_counting_site_is_an_event (the 25 ItemAddRef/ItemDecRef/ItemAlloc call sites of the regenerated Gen/Sites.lean are the reviewed ones, each mapped to its event kind). The harness's allocator scrubs pool items at count zero, so a premature release becomes a wrong result (found defect F20). The package runs with counting ItemAlloc/ItemAddRef/ItemDecRef callbacks over histories with snapshots, evictions, flushes, re-opens, nested visits, cold mutations under snapshots; after every step no count is negative and every cached reachable item is positive; after closing everything all counts are zero.",
         "closed_balanced_partial assumes every node object was freed. That assumption was FALSE of the pinned code (defect F11, repaired by /repo c2c929d, replays in corpus/); for the repaired code it is supported by the model theorem nodes_all_freed_if_no_load_under_replaced, the syntactic obligation slots_loaded_before_copied (textual order within a function, not dominance) and the refbalance predicate on the histories run - not by a proof about the Go code. The event model is tied to the code only through these predicates (not an event-by-event log comparison); Get's aliasing reference is counted as the caller's; faults are outside C15's quantifier."),
 "C19": ("Lean proof: open_reads_root_only (exact read list of the scan), key-only loads never touch value bytes, flush writes tile the file; read-log checks on the implementation",
         "The model of NewStore's reads is the Go loop position by position; for files ending in a root record exactly Stat + 2 reads. Key-only traversals in any cache state read only node records and header+key ranges; records never overlap. On the implementation, every open's read list is compared exactly and every read of every key-only call (GetItem/Min/Max/visit without value, Exist, Len, Set, Delete) is checked against the value ranges of all item records ever flushed. keyonly_history_reads_no_value is the same statement for the traversal itself (Model L, Model/Cache.lean): stream C19L compares the exact read list and the cache state after every GetItem/MinItem/MaxItem/EvictSomeItems with Model L's, starting from the cache state the package reports.",
         "Value ranges are computed by the model from its own (byte-identical) file image. Key-only block visits and key-only iterators are among the bracketed calls."),
 "C04": ("Lean proof: frame theorems of the history interpreter (snapshot_isolated, readonly_rejects, reads_change_nothing) + recycling_safe; snapshot correspondence",
         "For every operation line the model leaves untargeted stores untouched, so a snapshot keeps its value through every later history; read-only stores reject Set/Delete/Flush unchanged; Close/FlushRevert through a snapshot leave file bytes alone. The Go-side reason (shared nodes are never recycled while a version is pinned) is C10's theorem; the stream compares all open snapshots (snapshots of snapshots, any close order, removal/replacement, Close of the original) and the original after every step.",
         "After FlushRevert on the ORIGINAL, earlier snapshots are undefined (documented by the library) and are closed by the generator first."),
}

PENDING = {
 "C03": "check being built in this session (crash-image stream); theorems already in lean/Gkv/Props/C03.lean",
 "C04": "check being built in this session (snapshot stream runs; property module pending)",
 "C05": "check being built in this session (deterministic scheduler stream); theorems in lean/Gkv/Props/C05.lean",
 "C07": "check being built in this session (fault stream runs; property module pending)",
 "C09": "check being built in this session (write-log stream); theorems in lean/Gkv/Props/C09.lean",
 "C11": "check being built in this session",
 "C14": "check being built in this session; theorems in lean/Gkv/Props/C14.lean",
 "C15": "check being built in this session (refcount stream runs; property module pending)",
 "C17": "check being built in this session",
 "C18": "check being built in this session; theorems in lean/Gkv/Props/C18.lean",
 "C19": "check being built in this session",
}

def main():
    hooks = subprocess.run(["git", "-C", "/repo", "log", "--format=%H %s"], stdout=subprocess.PIPE, text=True).stdout.splitlines()
    hook_commits = [l.split(" ")[0] for l in hooks if l.split(" ", 1)[1].startswith("verif hooks")]
    checks = []
    for pid in sorted(CLAIMED):
        tech, text, note = CLAIMED[pid]
        checks.append({
            "property_id": pid,
            "quick_cmd": "bin/check %s --tier quick" % pid,
            "thorough_cmd": "bin/check %s --tier thorough" % pid,
            "evidence_file": "evidence/%s.json" % pid,
            "replay_cmd_template": "bin/check %s --replay {path}" % pid,
            "engine": "lean4-proof+correspondence",
            "level_claimed": {"category": "proof", "text": text, "design_ref": "DESIGN.md section 6, " + pid},
            "level_note": note + " Trusted base: Lean kernel, axioms propext/Classical.choice/Quot.sound, harness+memfile, translator, verif hooks (DESIGN.md section 7).",
            "technique": tech,
        })
    m = {
        "version": 1,
        "setup_cmd": "bin/setup",
        "hooks": {
            "guard": "verif",
            "enable": "go build -tags verif (harness module with replace => /repo)",
            "baseline_off_cmd": "cd /repo && go test -count=1 -vet=off ./...",
            "source_commits": hook_commits,
            "add_only": True,
        },
        "engines": [{"name": "lean4-proof+correspondence", "path": "bin/check",
                     "serves_properties": sorted(CLAIMED),
                     "kind_free_text": "Lean 4 theorems about an executable model (lean/Gkv) + differential correspondence of that model with the Go package (harness/) + regenerated fact tables (harness/cmd/extract)"}],
        "checks": checks,
        "not_applicable": [{"property_id": p, "reason": PENDING[p]} for p in sorted(PENDING) if p not in CLAIMED],
        "notes": "All checks rebuild harness and translator from /repo's working tree, regenerate lean/Gkv/Gen, rebuild the Lean modules, audit axioms, then run the correspondence streams. VERIF_SEED / VERIF_TIER are honoured.",
    }
    with open(os.path.join(ROOT, "MANIFEST.json"), "w") as f:
        json.dump(m, f, indent=1)
    print("claimed", len(checks), "pending", len(m["not_applicable"]))

if __name__ == "__main__":
    main()
