// Package memfile is an in-memory gkvlite.StoreFile that logs every call, can fail or tear
// the k-th call, and keeps the complete write history so that crash images can be rebuilt.
package memfile

import (
	"errors"
	"io"
	"os"
	"sync"
	"time"
)

// Kind of a file call.
type Kind byte

const (
	Read  Kind = 'R'
	Write Kind = 'W'
	Stat  Kind = 'S'
	Trunc Kind = 'T'
)

// Event is one call made on the file.
type Event struct {
	Kind   Kind
	Off    int64
	Len    int
	Data   []byte // writes only (the full buffer asked for)
	Failed bool
	Tag    string // the harness operation during which the call was made
}

// ErrInjected is returned by a call that was told to fail.
var ErrInjected = errors.New("memfile: injected I/O error")

// File implements gkvlite.StoreFile.
type File struct {
	mu   sync.Mutex
	Data []byte
	Log  []Event
	Tag  string

	// fault plan: the FailAt-th call from now (1-based) fails; Torn >= 0 means a write
	// lands its first Torn bytes before failing.
	FailAt int
	Torn   int
	calls  int
	Fired  bool

	// Yield, when set, is called at the start of every call (scheduler hook).
	Yield func()
	// Who, when set, labels each event (overrides Tag): which worker / call made it.
	Who func() string
}

// New returns an empty file.
func New() *File { return &File{Torn: -1} }

// Arm makes the k-th call from now fail (torn < 0: outright).
func (f *File) Arm(k, torn int) {
	f.mu.Lock()
	defer f.mu.Unlock()
	f.FailAt, f.Torn, f.calls, f.Fired = k, torn, 0, false
}

// Disarm clears the fault plan.
func (f *File) Disarm() {
	f.mu.Lock()
	defer f.mu.Unlock()
	f.FailAt = 0
}

func (f *File) tag() string {
	if f.Who != nil {
		return f.Who()
	}
	return f.Tag
}

func (f *File) hit() bool {
	if f.FailAt <= 0 {
		return false
	}
	f.calls++
	if f.calls == f.FailAt {
		f.Fired = true
		f.FailAt = 0
		return true
	}
	return false
}

// Calls returns the number of calls counted since Arm.
func (f *File) Calls() int { f.mu.Lock(); defer f.mu.Unlock(); return f.calls }

// ReadAt implements io.ReaderAt.
func (f *File) ReadAt(p []byte, off int64) (int, error) {
	if f.Yield != nil {
		f.Yield()
	}
	f.mu.Lock()
	defer f.mu.Unlock()
	ev := Event{Kind: Read, Off: off, Len: len(p), Tag: f.tag()}
	if f.hit() {
		ev.Failed = true
		f.Log = append(f.Log, ev)
		return 0, ErrInjected
	}
	f.Log = append(f.Log, ev)
	if off < 0 {
		return 0, errors.New("memfile: negative offset")
	}
	if off >= int64(len(f.Data)) {
		if len(p) == 0 {
			return 0, nil
		}
		return 0, io.EOF
	}
	n := copy(p, f.Data[off:])
	if n < len(p) {
		return n, io.EOF
	}
	return n, nil
}

// WriteAt implements io.WriterAt.
func (f *File) WriteAt(p []byte, off int64) (int, error) {
	if f.Yield != nil {
		f.Yield()
	}
	f.mu.Lock()
	defer f.mu.Unlock()
	ev := Event{Kind: Write, Off: off, Len: len(p), Data: append([]byte(nil), p...), Tag: f.tag()}
	if f.hit() {
		ev.Failed = true
		n := 0
		if f.Torn > 0 {
			n = f.Torn
			if n > len(p) {
				n = len(p)
			}
			f.put(p[:n], off)
		}
		ev.Len = n
		ev.Data = ev.Data[:n]
		f.Log = append(f.Log, ev)
		return n, ErrInjected
	}
	f.Log = append(f.Log, ev)
	f.put(p, off)
	return len(p), nil
}

func (f *File) put(p []byte, off int64) {
	if len(p) == 0 {
		return
	}
	end := int(off) + len(p)
	if end > len(f.Data) {
		f.Data = append(f.Data, make([]byte, end-len(f.Data))...)
	}
	copy(f.Data[off:], p)
}

type info struct{ size int64 }

func (i info) Name() string       { return "memfile" }
func (i info) Size() int64        { return i.size }
func (i info) Mode() os.FileMode  { return 0600 }
func (i info) ModTime() time.Time { return time.Time{} }
func (i info) IsDir() bool        { return false }
func (i info) Sys() interface{}   { return nil }

// Stat implements StoreFile.
func (f *File) Stat() (os.FileInfo, error) {
	if f.Yield != nil {
		f.Yield()
	}
	f.mu.Lock()
	defer f.mu.Unlock()
	ev := Event{Kind: Stat, Tag: f.tag()}
	if f.hit() {
		ev.Failed = true
		f.Log = append(f.Log, ev)
		return nil, ErrInjected
	}
	f.Log = append(f.Log, ev)
	return info{int64(len(f.Data))}, nil
}

// Truncate implements StoreFile.
func (f *File) Truncate(size int64) error {
	if f.Yield != nil {
		f.Yield()
	}
	f.mu.Lock()
	defer f.mu.Unlock()
	ev := Event{Kind: Trunc, Off: size, Tag: f.tag()}
	if f.hit() {
		ev.Failed = true
		f.Log = append(f.Log, ev)
		return ErrInjected
	}
	f.Log = append(f.Log, ev)
	if size < int64(len(f.Data)) {
		f.Data = f.Data[:size]
	} else {
		f.Data = append(f.Data, make([]byte, int(size)-len(f.Data))...)
	}
	return nil
}

// Bytes returns a copy of the current contents.
func (f *File) Bytes() []byte {
	f.mu.Lock()
	defer f.mu.Unlock()
	return append([]byte(nil), f.Data...)
}

// FromBytes returns a file with the given contents and an empty log.
func FromBytes(b []byte) *File {
	f := New()
	f.Data = append([]byte(nil), b...)
	return f
}

// Mutations returns the write/truncate events that took effect, oldest first.
func (f *File) Mutations() []Event {
	f.mu.Lock()
	defer f.mu.Unlock()
	var out []Event
	for _, e := range f.Log {
		if e.Kind == Write || (e.Kind == Trunc && !e.Failed) {
			if e.Kind == Write && e.Failed && e.Len == 0 {
				continue
			}
			out = append(out, e)
		}
	}
	return out
}

// CrashImage rebuilds the file after the first k mutations completed and the first c bytes
// of mutation k+1 (if it is a write) landed.
func CrashImage(muts []Event, k, c int) []byte {
	var d []byte
	apply := func(e Event, n int) {
		if e.Kind == Trunc {
			if int(e.Off) < len(d) {
				d = d[:e.Off]
			}
			return
		}
		p := e.Data
		if n >= 0 && n < len(p) {
			p = p[:n]
		}
		if len(p) == 0 {
			return
		}
		end := int(e.Off) + len(p)
		if end > len(d) {
			d = append(d, make([]byte, end-len(d))...)
		}
		copy(d[e.Off:], p)
	}
	for i := 0; i < k && i < len(muts); i++ {
		apply(muts[i], -1)
	}
	if k < len(muts) && muts[k].Kind == Write {
		apply(muts[k], c)
	}
	return d
}
