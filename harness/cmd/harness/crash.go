package main

import (
	"bufio"
	"bytes"
	"encoding/binary"
	"encoding/json"
	"flag"
	"fmt"
	"math/rand"
	"os"
	"path/filepath"
	"strings"

	"encoding/hex"

	"github.com/cbehopkins/gkvlite"
	"gkvverif/memfile"
)

func gkvliteMagicEnd() []byte { return gkvlite.MagicEnd }

// framedRecord is a root record in every respect but its payload, placed at file offset `at`.
func framedRecord(at int64, payload []byte) []byte {
	var b bytes.Buffer
	b.Write(gkvlite.MagicBeg)
	b.Write(gkvlite.MagicBeg)
	total := uint32(2*len(gkvlite.MagicBeg) + 4 + 4 + len(payload) + 8 + 4 + 2*len(gkvlite.MagicEnd))
	binary.Write(&b, binary.BigEndian, uint32(gkvlite.Version))
	binary.Write(&b, binary.BigEndian, total)
	b.Write(payload)
	binary.Write(&b, binary.BigEndian, at)
	binary.Write(&b, binary.BigEndian, total)
	b.Write(gkvlite.MagicEnd)
	b.Write(gkvlite.MagicEnd)
	return b.Bytes()
}

func hexs(b []byte) string { return hex.EncodeToString(b) }

// c03: crash images.  For each base history (file-backed, several flushes, values that contain
// the magic markers and altered copies of earlier root records) every prefix of the ordered file
// writes is cut — at every write boundary, at every byte inside root-record writes and at sampled
// (thorough: all) bytes inside the other writes — and the surviving image is re-opened; a sample
// of the recovered stores is then mutated, flushed and re-opened again.
func cmdC03(args []string) {
	fs := flag.NewFlagSet("c03", flag.ExitOnError)
	seed := fs.Int64("seed", 1, "seed")
	tier := fs.String("tier", "quick", "tier")
	dir := fs.String("dir", ".", "output directory")
	nh := fs.Int("n", 12, "base histories")
	fs.Parse(args)
	r := rand.New(rand.NewSource(*seed))
	p := Profile{Name: "C03", Ops: 30, Set: 30, Del: 8, Flush: 12, SetColl: 2, RmColl: 1, Evict: 2, Reopen: 3,
		Revert: 1, SetRoot: 5, MaxColls: 3, Drop: 50}
	g := &Gen{r: r, p: p}
	os.MkdirAll(*dir, 0755)
	fo, _ := os.Create(filepath.Join(*dir, "ops.txt"))
	fi, _ := os.Create(filepath.Join(*dir, "impl.txt"))
	bo, bi := bufio.NewWriterSize(fo, 1<<20), bufio.NewWriterSize(fi, 1<<20)
	st := stats{OpKinds: map[string]int{}, ObsKinds: map[string]int{}}
	extra := map[string]int{}
	w := newWorld()
	emit := func(l string) string {
		o := w.Exec(l)
		fmt.Fprintln(bo, l)
		fmt.Fprintln(bi, o)
		st.Ops++
		st.OpKinds[opKind(l)]++
		st.ObsKinds[obsKind(o)]++
		return o
	}
	for h := 0; h < *nh && !w.dead; h++ {
		base := g.history()
		for _, l := range base {
			emit(l)
		}
		mf := w.files[1]
		if mf == nil {
			continue
		}
		muts := mf.Mutations()
		extra["writes"] += len(muts)
		nextF, nextS := 50, 50
		lastRootK := -1 // index just after the last complete root record write
		for k := 1; k <= len(muts); k++ {
			if muts[k-1].Kind == memfile.Write && isRootRecord(muts[k-1].Data, muts[k-1].Off) {
				lastRootK = k
			}
		}
		for k := 0; k <= len(muts); k++ {
			cuts := []int{0}
			if k < len(muts) && muts[k].Kind == memfile.Write {
				n := muts[k].Len
				switch {
				case *tier == "thorough" || isRootRecord(muts[k].Data, muts[k].Off):
					for c := 1; c < n; c++ {
						cuts = append(cuts, c)
					}
				default:
					for i := 0; i < 6 && n > 1; i++ {
						cuts = append(cuts, 1+r.Intn(n-1))
					}
				}
			}
			if k > 0 && muts[k-1].Kind == memfile.Write && isRootRecord(muts[k-1].Data, muts[k-1].Off) {
				// arbitrary junk after a complete root record: marker fragments, a single marker,
				// doubled markers, copies of the record's own tail, random bytes
				root := muts[k-1].Data
				me := string(gkvliteMagicEnd())
				junks := [][]byte{[]byte(me), []byte(me + me), []byte(me[:5]), []byte(me + "zzzzzz"), []byte("z" + me),
					root[len(root)-24:], root[len(root)-13:], alterRoot(root, r.Intn(4))}
				rb := make([]byte, 1+r.Intn(40))
				r.Read(rb)
				junks = append(junks, rb, append([]byte(me), rb...))
				// a doubled end marker behind 16 "trailer" bytes of every sign: what precedes the marker
				// is read as an int64 offset and a uint32 length
				for _, fillb := range []byte{0xff, 0x80, 0x00, 0x7f} {
					junks = append(junks, append(bytes.Repeat([]byte{fillb}, 16), []byte(me+me)...))
				}
				rb16 := make([]byte, 16)
				r.Read(rb16)
				junks = append(junks, append(rb16, []byte(me+me)...))
				// correctly FRAMED records (markers, version, both lengths, trailer offset naming the
				// place they lie at) whose payload is not a root map: the scan has to pass over them
				at := muts[k-1].Off + int64(len(root))
				for _, pl := range []string{`{"a":{"o":1`, `[]`, ``, `{"a":5}`, `{}x`, `{"q":{"o":0,"l":0}}{"r":1}`, `{"q":{"o":0,"l":0}}]`} {
					junks = append(junks, framedRecord(at, []byte(pl)))
				}
				// VERBATIM copies of earlier, different root records: complete and self-consistent in
				// every field except that their trailer offset names the place they came from
				seen := 0
				for j := k - 2; j >= 0 && seen < 3; j-- {
					if muts[j].Kind == memfile.Write && isRootRecord(muts[j].Data, muts[j].Off) && !bytes.Equal(muts[j].Data, root) {
						junks = append(junks, muts[j].Data, append(append([]byte{}, rb...), muts[j].Data...))
						seen++
					}
				}
				for _, j := range junks {
					emit(fmt.Sprintf("crashj 1 %d 0 %s", k, hexs(j)))
					extra["junk_images"]++
				}
			}
			if k == lastRootK && (h == 0 || *tier == "thorough") {
				// tail-length boundary sweep: junk (no marker bytes) of every length in a window
				// around each power of two from 512 to 8192 after the LAST complete root record —
				// where a scanner that works in blocks would have its off-by-a-few errors
				for e := 9; e <= 13; e++ {
					for l := (1 << e) - 48; l <= (1<<e)+16; l++ {
						emit(fmt.Sprintf("crashj 1 %d 0 %s", k, hexs(bytes.Repeat([]byte{'.'}, l))))
						extra["boundary_tail_images"]++
					}
				}
			}
			for _, c := range cuts {
				emit(fmt.Sprintf("crash 1 %d %d", k, c))
				extra["images"]++
				if r.Intn(40) == 0 && nextS < 60 {
					// the recovered store accepts further mutations and flushes, durable in turn
					o := emit(fmt.Sprintf("crashopen 1 %d %d %d %d", k, c, nextF, nextS))
					if o == "ok" {
						nm := hx([]byte(g.namePool[0]))
						emit(fmt.Sprintf("setcoll %d %s", nextS, nm))
						emit(fmt.Sprintf("set %d %s %s %s 7", nextS, nm, hx(g.key()), hx(g.val())))
						emit(fmt.Sprintf("del %d %s %s", nextS, nm, hx(g.key())))
						emit(fmt.Sprintf("flush %d", nextS))
						emit(fmt.Sprintf("dump %d", nextS))
						emit(fmt.Sprintf("opendump %d", nextF))
						emit(fmt.Sprintf("close %d", nextS))
						extra["continued"]++
					}
					nextF++
					nextS++
				}
			}
		}
		st.Histories++
		if h < 1 {
			for _, l := range base {
				if len(l) > 160 {
					l = l[:160] + "..."
				}
				st.Samples = append(st.Samples, l)
			}
		}
	}
	st.Distinct = st.Histories
	bo.Flush()
	bi.Flush()
	fo.Close()
	fi.Close()
	js, _ := json.MarshalIndent(map[string]interface{}{"stats": st, "extra": extra}, "", " ")
	os.WriteFile(filepath.Join(*dir, "stats.json"), js, 0644)
	_ = strings.Join
	if w.dead {
		os.Exit(3)
	}
}
