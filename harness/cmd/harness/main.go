// Command harness generates operation histories, runs them against the real gkvlite package
// (built from /repo with -tags verif) and records one canonical observation per operation.
package main

import (
	"bufio"
	"encoding/json"
	"flag"
	"fmt"
	"math/rand"
	"os"
	"path/filepath"
	"strings"
)

func profiles() map[string]Profile {
	base := Profile{Ops: 60, Set: 30, Del: 10, Get: 8, GetI: 5, Exist: 3, Min: 3, Max: 3, Totals: 4, Names: 1,
		Flush: 6, Evict: 6, Reopen: 4, Malformed: 3, Dump: 2, MaxColls: 3, MemOnly: 25, Drop: 30, Len: 2}
	m := map[string]Profile{}
	p := base
	p.Name = "C01"
	p.HugeVals = true
	m["C01"] = p

	p = base
	p.Name = "C01a" // the convenience API: SetAny/GetAny/DeleteAny/ExistAny over every argument type, Set (random priority), Name, Stats
	p.Any, p.Set, p.Shape, p.Visit, p.Dump, p.Image, p.Flush, p.MemOnly = 40, 12, 4, 4, 4, 2, 9, 10
	m["C01a"] = p

	p = Profile{Name: "C08f", Ops: 40, Set: 30, Del: 8, SetColl: 4, Flush: 8, Forge: 7, Dump: 3, Names: 2, Get: 4, MaxColls: 3}
	// FlushRevert against the SPECIFICATION (stack of flushed states) rather than against the model of
	// the scan, with values that forge a root record at their own offset (finding F17); one store, no
	// re-open, no snapshot, so that the ghost stack of the driver is exact
	m["C08f"] = p

	p = base
	p.Name = "C02"
	p.MemOnly = 0
	p.Flush, p.Reopen, p.SetColl, p.RmColl, p.Image, p.Dump, p.Revert = 10, 10, 3, 2, 3, 4, 2
	p.BigVals, p.LongNames, p.BadNames, p.HugeVals, p.MjsonBeforeFlush = true, true, true, true, true
	m["C02"] = p

	p = base
	p.Name = "C04"
	p.MemOnly = 20
	p.Snap, p.SnapClose, p.Dump, p.SetColl, p.RmColl, p.Visit, p.SnapRevert, p.Write, p.Image = 8, 5, 10, 3, 2, 4, 3, 2, 3
	m["C04"] = p

	p.Name = "C04t"                                                               // the same under an encode/decode pair of BeforeItemWrite / AfterItemRead hooks
	p.Image, p.Write, p.Evict, p.Reopen, p.SnapRead, p.Visit = 0, 0, 10, 6, 10, 8 // file bytes differ from the model's by design: no byte-image observations
	p.Cfg = func(r *rand.Rand) int { return cbTransform | (r.Intn(4)) }
	m["C04t"] = p

	p = base
	p.Name = "C06"
	p.Visit, p.Set, p.Evict, p.Reopen, p.Chain = 30, 30, 8, 5, 1
	m["C06"] = p

	p = base
	p.Name = "C08"
	p.MemOnly = 5
	p.Flush, p.Revert, p.Reopen, p.Dump, p.Image, p.SetColl, p.RmColl, p.Write, p.Snap, p.SnapRevert = 12, 8, 5, 5, 5, 2, 2, 1, 2, 2
	p.LongNames = true
	m["C08"] = p

	p = base
	p.Name = "C16" // measure, mutate, measure again: counts and block enumerations across versions
	p.Len, p.Blocks, p.Set, p.Del, p.Totals, p.Snap, p.SnapClose = 14, 12, 30, 22, 4, 3, 2
	p.Chain = 1 // a tree that caller-chosen priorities made a path of 66-80 nodes, then measured
	m["C16"] = p

	p = base
	p.Name = "C13any" // aggregates and search order also under lower-priority overwrites
	p.Shape, p.Set, p.Del, p.Visit, p.Chain = 10, 40, 12, 8, 1
	m["C13any"] = p

	p = base
	p.Name = "C11"
	p.MemOnly = 10
	p.Copy, p.Snap, p.SnapClose, p.SetColl, p.RmColl, p.MaxColls, p.Set, p.Chain = 9, 3, 2, 6, 2, 5, 22, 1
	m["C11"] = p

	p = base
	p.Name = "C12"
	p.SetColl, p.RmColl, p.Names, p.Dump, p.MaxColls, p.Reopen, p.Flush = 10, 6, 6, 5, 6, 6, 8
	p.LongNames, p.BadNames = true, true
	m["C12"] = p

	p = base
	p.Name = "C13"
	p.Shape, p.Set, p.Del, p.NoLowerOverwrite, p.Visit = 10, 40, 12, true, 8
	m["C13"] = p

	p = base
	p.Name = "C10"
	p.Stores, p.MemOnly = 2, 40
	p.Snap, p.SnapClose, p.SetColl, p.RmColl, p.HeapCheck, p.Churn, p.NVisit = 10, 9, 5, 3, 14, 3, 6
	p.Dump, p.Reopen, p.Flush, p.Evict, p.Revert = 6, 3, 5, 4, 1
	m["C10"] = p

	p = base
	p.Name = "C18n" // nested API calls inside visitor callbacks
	p.NVisit, p.Snap, p.SnapClose, p.HeapCheck = 25, 3, 2, 5
	m["C18n"] = p

	p = base
	p.Name = "C15"
	p.Snap, p.SnapClose, p.Visit, p.RefCheck, p.NVisit, p.SetColl, p.RmColl, p.Len = 5, 4, 8, 10, 2, 2, 2, 2
	p.Flush, p.Evict, p.Reopen, p.Drop = 8, 8, 5, 0
	p.CloseAll, p.NoGet, p.Get, p.GetI = true, true, 0, 12
	p.BadNames = true // a refused Flush (a collection name JSON cannot carry) must not keep anything pinned
	p.Cfg = func(r *rand.Rand) int { return cbRefs | cbItemAlloc | (r.Intn(256) &^ cbValLength) }
	m["C15"] = p

	p.Name = "C15x" // provokes known finding F11: re-opened (unloaded) trees, snapshots, mutations of the original, then non-evicting reads through the snapshots
	p.Reopen, p.Snap, p.SnapRead, p.SnapClose, p.Del, p.Evict = 10, 10, 25, 3, 16, 10
	p.FlushBeforeReopen, p.NoFinalDump, p.Dump, p.Visit, p.NVisit, p.Ops, p.Cold = true, true, 0, 2, 0, 50, 6
	m["C15x"] = p

	p = base
	p.Name = "C09"
	p.MemOnly = 0
	p.Flush, p.Revert, p.Reopen, p.Snap, p.SnapClose, p.Visit, p.Copy, p.Write, p.SnapRevert = 10, 3, 5, 3, 2, 5, 2, 2, 2
	p.FlushExtra = []string{"wlog %F"}
	p.EndExtra = []string{"wlog %F", "appendcheck %F"}
	p.CopyOnto = true
	m["C09"] = p

	p = base
	p.Name = "C14"
	p.MemOnly = 0
	p.Flush, p.Image, p.Copy, p.BigVals, p.SetColl, p.RmColl, p.MaxColls, p.Fill = 12, 8, 3, true, 4, 2, 6, 2
	p.FlushExtra = []string{"image %F", "imagehex %F", "opendump %F"}
	p.MjsonBeforeFlush, p.HugeVals = true, true
	m["C14"] = p

	p = base
	p.Name = "C19"
	p.MemOnly = 0
	p.Flush, p.Evict, p.Reopen, p.Visit, p.GetI, p.Min, p.Max, p.Exist, p.Len, p.Drop = 10, 8, 10, 8, 10, 5, 5, 5, 2, 30
	p.Snap, p.SnapClose, p.BigVals, p.Blocks, p.Iter = 2, 1, true, 4, 4
	p.KeyOnlyReads = true
	p.TinyIncr = 40
	m["C19"] = p

	pl := p
	pl.Name = "C19L" // Model L: lookups and evictions with exact answers, file reads and cache transitions
	pl.KeyOnlyReads = false
	pl.CacheOps, pl.Set, pl.Del, pl.Evict, pl.Visit, pl.Fill = 30, 25, 6, 4, 4, 1
	m["C19L"] = pl

	pn := base
	pn.Name = "C12n" // no load-time comparator callback: SetCollection on an existing name must install the comparator (C12) and visits must then run under it (C06)
	pn.NoCmpCallback, pn.Revert, pn.SnapRevert, pn.Copy = true, 0, 0, 0
	pn.Reopen, pn.Flush, pn.Visit, pn.Iter, pn.SetColl, pn.RmColl, pn.Snap, pn.SnapClose, pn.Min, pn.Max = 10, 10, 10, 4, 3, 2, 3, 2, 3, 3
	pn.Cfg = func(r *rand.Rand) int { return cbNoKeyCmp }
	m["C12n"] = pn

	pc := m["C11"]
	pc.Name = "C11n" // CopyTo when the comparators were installed with SetCollection only (no load-time callback): the copy must search under them too
	pc.NoCmpCallback = true
	pc.Cfg = func(r *rand.Rand) int { return cbNoKeyCmp }
	m["C11n"] = pc

	pn.Name = "C17p" // a PARTIAL load-time comparator callback (answers for names starting with 'r' only); the application installs the others after every open
	pn.Cfg = func(r *rand.Rand) int { return cbPartialCmp }
	pn.Snap, pn.SnapClose, pn.SnapRead, pn.Dump = 8, 3, 10, 6
	m["C17p"] = pn

	p.Name = "C19cb" // the same read-log checks under every neutral subset of the callbacks (C17 x C19)
	p.Cfg = func(r *rand.Rand) int { return r.Intn(256) }
	m["C19cb"] = p

	p = base
	p.Name = "C18"
	p.Iter, p.Set, p.Evict, p.Flush, p.Reopen, p.HeapCheck = 30, 30, 5, 5, 3, 3
	p.Fill = 3 // iterators abandoned over collections much longer than any read-ahead a producer might keep
	m["C18"] = p

	p = base
	p.Name = "C17"
	p.Flush, p.Image, p.Visit, p.Copy, p.Reopen, p.MemOnly, p.Revert, p.Snap, p.SnapClose = 10, 5, 6, 2, 6, 10, 3, 2, 1
	p.Cfg = func(r *rand.Rand) int { return r.Intn(256) }
	m["C17"] = p

	p.Name = "C17c" // values chunked in memory as well (Val = first chunk, rest in Transient)
	p.NoGet = true  // Get hands out Item.Val, which is only the first chunk here
	p.Totals, p.Shape, p.BigVals = 8, 3, true
	p.Cfg = func(r *rand.Rand) int { return 256 | (r.Intn(256) &^ (4 | 8 | 16)) }
	m["C17c"] = p
	return m
}

type stats struct {
	Histories int            `json:"histories"`
	Ops       int            `json:"ops"`
	OpKinds   map[string]int `json:"op_kinds"`
	ObsKinds  map[string]int `json:"obs_kinds"`
	Samples   []string       `json:"samples"`
	Distinct  int            `json:"distinct_histories"`
}

func obsKind(o string) string {
	switch {
	case o == "":
		return "empty"
	case strings.HasPrefix(o, "err"), strings.HasPrefix(o, "panic"), o == "hang", o == "nocoll", o == "nostore",
		o == "noroots", o == "true", o == "false", o == "ok", o == "-", o == "corrupt", o == "dead":
		if i := strings.IndexByte(o, ':'); i > 0 {
			return o[:i]
		}
		return o
	}
	return "value"
}

func cmdGenRun(args []string) {
	fs := flag.NewFlagSet("genrun", flag.ExitOnError)
	prop := fs.String("prop", "C01", "profile")
	seed := fs.Int64("seed", 1, "seed")
	n := fs.Int("n", 100, "histories")
	dir := fs.String("dir", ".", "output directory")
	ops := fs.Int("ops", 0, "override ops per history")
	fs.Parse(args)
	p, ok := profiles()[*prop]
	if !ok {
		fmt.Fprintln(os.Stderr, "unknown profile", *prop)
		os.Exit(2)
	}
	if *ops > 0 {
		p.Ops = *ops
	}
	os.MkdirAll(*dir, 0755)
	fo, _ := os.Create(filepath.Join(*dir, "ops.txt"))
	fi, _ := os.Create(filepath.Join(*dir, "impl.txt"))
	bo, bi := bufio.NewWriterSize(fo, 1<<20), bufio.NewWriterSize(fi, 1<<20)
	st := stats{OpKinds: map[string]int{}, ObsKinds: map[string]int{}}
	g := &Gen{r: rand.New(rand.NewSource(*seed)), p: p}
	w := newWorld()
	seen := map[uint64]bool{}
	for h := 0; h < *n; h++ {
		lines := g.history()
		seen[fnv([]byte(strings.Join(lines, "\n")))] = true
		for _, l := range lines {
			o := w.Exec(l)
			if w.rewrite != "" {
				l, w.rewrite = w.rewrite, ""
			}
			fmt.Fprintln(bo, l)
			fmt.Fprintln(bi, o)
			st.Ops++
			st.OpKinds[opKind(l)]++
			st.ObsKinds[obsKind(o)]++
		}
		if h < 2 {
			for _, l := range lines {
				if len(l) > 160 {
					l = l[:160] + "..."
				}
				st.Samples = append(st.Samples, l)
			}
		}
		st.Histories++
		if w.dead {
			break
		}
	}
	st.Distinct = len(seen)
	bo.Flush()
	bi.Flush()
	fo.Close()
	fi.Close()
	js, _ := json.MarshalIndent(st, "", " ")
	os.WriteFile(filepath.Join(*dir, "stats.json"), js, 0644)
	if w.dead {
		os.Exit(3)
	}
}

// cmdRun replays an ops file against the implementation.
func cmdRun(args []string) {
	fs := flag.NewFlagSet("run", flag.ExitOnError)
	in := fs.String("in", "", "ops file")
	out := fs.String("out", "", "observations file")
	rw := fs.String("rw", "", "file for the operation lines as the model must see them (lines carrying what only the implementation knows)")
	fs.Parse(args)
	f, err := os.Open(*in)
	if err != nil {
		fmt.Fprintln(os.Stderr, err)
		os.Exit(2)
	}
	defer f.Close()
	o := os.Stdout
	if *out != "" {
		o, _ = os.Create(*out)
		defer o.Close()
	}
	bw := bufio.NewWriterSize(o, 1<<20)
	defer bw.Flush()
	sc := bufio.NewScanner(f)
	sc.Buffer(make([]byte, 1<<20), 1<<26)
	w := newWorld()
	var rwb *bufio.Writer
	if *rw != "" {
		rf, _ := os.Create(*rw)
		defer rf.Close()
		rwb = bufio.NewWriterSize(rf, 1<<20)
		defer rwb.Flush()
	}
	for sc.Scan() {
		l := strings.TrimSpace(sc.Text())
		if l == "" || strings.HasPrefix(l, "#") {
			fmt.Fprintln(bw, "")
			if rwb != nil {
				fmt.Fprintln(rwb, l)
			}
			continue
		}
		fmt.Fprintln(bw, w.Exec(l))
		if rwb != nil {
			if w.rewrite != "" {
				l = w.rewrite
			}
			fmt.Fprintln(rwb, l)
		}
		w.rewrite = ""
	}
}

func main() {
	if len(os.Args) < 2 {
		fmt.Fprintln(os.Stderr, "usage: harness genrun|run|... [flags]")
		os.Exit(2)
	}
	switch os.Args[1] {
	case "genrun":
		cmdGenRun(os.Args[2:])
	case "run":
		cmdRun(os.Args[2:])
	default:
		if !extraCommand(os.Args[1], os.Args[2:]) {
			fmt.Fprintln(os.Stderr, "unknown command", os.Args[1])
			os.Exit(2)
		}
	}
}
