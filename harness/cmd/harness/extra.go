package main

func extraCommand(name string, args []string) bool { return false }
