package main

import (
	"bufio"
	"bytes"
	"encoding/json"
	"flag"
	"fmt"
	"math/rand"
	"os"
	"path/filepath"
	"sort"
	"strings"
)

// runLines executes prepared histories and writes ops.txt / impl.txt / stats.json.
func runLines(dir string, hist [][]string) {
	os.MkdirAll(dir, 0755)
	fo, _ := os.Create(filepath.Join(dir, "ops.txt"))
	fi, _ := os.Create(filepath.Join(dir, "impl.txt"))
	bo, bi := bufio.NewWriterSize(fo, 1<<20), bufio.NewWriterSize(fi, 1<<20)
	st := stats{OpKinds: map[string]int{}, ObsKinds: map[string]int{}}
	w := newWorld()
	seen := map[uint64]bool{}
	for h, lines := range hist {
		seen[fnv([]byte(strings.Join(lines, "\n")))] = true
		for _, l := range lines {
			fmt.Fprintln(bo, l)
			bo.Flush()
			o := w.Exec(l)
			fmt.Fprintln(bi, o)
			st.Ops++
			st.OpKinds[opKind(l)]++
			st.ObsKinds[obsKind(o)]++
		}
		if h < 2 {
			for _, l := range lines {
				if len(l) > 160 {
					l = l[:160] + "..."
				}
				st.Samples = append(st.Samples, l)
			}
		}
		st.Histories++
		if w.dead {
			break
		}
	}
	st.Distinct = len(seen)
	bo.Flush()
	bi.Flush()
	fo.Close()
	fi.Close()
	js, _ := json.MarshalIndent(st, "", " ")
	os.WriteFile(filepath.Join(dir, "stats.json"), js, 0644)
	if w.dead {
		os.Exit(3)
	}
}

// c16: whole-collection enumerations at every size.
func cmdC16(args []string) {
	fs := flag.NewFlagSet("c16", flag.ExitOnError)
	seed := fs.Int64("seed", 1, "seed")
	tier := fs.String("tier", "quick", "tier")
	dir := fs.String("dir", ".", "output directory")
	fs.Int("n", 0, "unused")
	fs.Parse(args)
	r := rand.New(rand.NewSource(*seed))
	var sizes []int
	for n := 0; n <= 70; n++ {
		sizes = append(sizes, n)
	}
	sizes = append(sizes, 1023, 1024, 1025, 2047, 2048, 2049)
	if *tier == "thorough" {
		sizes = append(sizes, 3071, 3072, 3073, 5000, 4096, 1500)
		for i := 0; i < 40; i++ {
			sizes = append(sizes, 71+r.Intn(1000))
		}
	}
	var hist [][]string
	for _, n := range sizes {
		name := []string{"a", "rv", "fo"}[r.Intn(3)]
		var l []string
		l = append(l, "reset", "cfg 0")
		file := r.Intn(2) == 0 && n < 200
		if file {
			l = append(l, "open 1 1")
		} else {
			l = append(l, "mem 1")
		}
		hn := hx([]byte(name))
		l = append(l, "setcoll 1 "+hn)
		if n <= 70 && r.Intn(2) == 0 {
			// random small keys with ties and deletes
			g := &Gen{r: r, p: Profile{}, keyPrio: map[string]int{}, usedPrio: map[int]bool{}}
			g.prioMode = r.Intn(5)
			for i := 0; i < n; i++ {
				k := []byte(fmt.Sprintf("%c%03d", 'a'+r.Intn(3), r.Intn(500)))
				l = append(l, fmt.Sprintf("set 1 %s %s %s %d", hn, hx(k), hx(g.val()), g.prio(name, k)))
			}
		} else {
			l = append(l, fmt.Sprintf("fill 1 %s %d", hn, n))
		}
		if file {
			l = append(l, "flush 1")
			if r.Intn(2) == 0 {
				l = append(l, "close 1", "open 1 1")
			}
		}
		l = append(l, "len 1 "+hn, "totals 1 "+hn)
		for _, mg := range []string{"id", "rev", "rand"} {
			l = append(l, fmt.Sprintf("blocks 1 %s %d %s", hn, r.Intn(2), mg))
		}
		l = append(l, "random 1 "+hn, "random 1 "+hn, "len 1 "+hn)
		hist = append(hist, l)
	}
	runLines(*dir, hist)
}

// ---- C07: a fault at every individual file call ----

func (w *World) fileCalls() map[int]int {
	m := map[int]int{}
	for id, f := range w.files {
		m[id] = len(f.Log)
	}
	return m
}

type injPoint struct {
	op, fid, k, torn int
}

func cmdC07(args []string) {
	fs := flag.NewFlagSet("c07", flag.ExitOnError)
	seed := fs.Int64("seed", 1, "seed")
	tier := fs.String("tier", "quick", "tier")
	dir := fs.String("dir", ".", "output directory")
	nh := fs.Int("n", 6, "base histories")
	maxPts := fs.Int("points", 120, "max injection points per base history (0 = all)")
	prof := fs.String("profile", "C07", "C07 | C18 (iterators and visits on cold trees)")
	injExist := fs.Bool("inject-exist", false, "also inject faults into Exist (which has no error result: known finding F14)")
	fs.Parse(args)
	r := rand.New(rand.NewSource(*seed))
	p := Profile{Name: "C07", Ops: 36, Set: 30, Del: 10, Get: 8, GetI: 5, Min: 3, Max: 3, Totals: 3, Visit: 6,
		Flush: 10, Evict: 8, Reopen: 6, Revert: 2, Copy: 2, Snap: 2, SnapClose: 1, Len: 1, MaxColls: 2, Drop: 20, BigVals: false,
		Iter: 2, SnapRevert: 1, CloseSnapsOnReopen: true, Exist: 3, Write: 2}
	if *prof == "C11" {
		p.Name = "C07-C11"
		p.Copy, p.Set, p.Get, p.GetI, p.Revert, p.Iter, p.MaxColls = 12, 40, 2, 2, 1, 0, 3
	}
	if *prof == "C17" {
		// C17: "all other properties hold identically with and without them" - C07 under every
		// subset of the neutral callbacks
		p.Name = "C07-C17"
		p.NoGet = true
		p.GetI, p.Get = 12, 0
		// (not the chunked value WRITER: the fault-aware model counts the file's write calls, and a
		// writer that issues several per value would shift every injection point)
		p.Cfg = func(r *rand.Rand) int { return r.Intn(256) &^ cbValWrite }
	}
	if *prof == "C18" {
		p.Name = "C07-C18"
		p.Iter, p.Visit, p.Evict, p.Reopen, p.Set, p.Get, p.GetI, p.Copy = 14, 10, 10, 8, 24, 2, 2, 0
	}
	if *tier == "thorough" {
		p.Ops = 50
	}
	g := &Gen{r: r, p: p}
	os.MkdirAll(*dir, 0755)
	fo, _ := os.Create(filepath.Join(*dir, "ops.txt"))
	fi, _ := os.Create(filepath.Join(*dir, "impl.txt"))
	bo, bi := bufio.NewWriterSize(fo, 1<<20), bufio.NewWriterSize(fi, 1<<20)
	st := stats{OpKinds: map[string]int{}, ObsKinds: map[string]int{}}
	extra := map[string]int{}
	emit := func(l, o string) {
		fmt.Fprintln(bo, l)
		fmt.Fprintln(bi, o)
		st.Ops++
		st.OpKinds[opKind(l)]++
		st.ObsKinds[obsKind(o)]++
	}
	dead := false
	for h := 0; h < *nh && !dead; h++ {
		base := g.history()
		// a tail that always exercises mutations on lazily loaded trees: flush, re-open, then
		// deletes and top-priority inserts (these split from the root and read off-path children)
		for sid, gs := range g.stores {
			if gs.ro || gs.mem {
				continue
			}
			nsid := 90 + h%5
			var nm string
			for n := range gs.names {
				if nm == "" || n < nm {
					nm = n
				}
			}
			hn := hx([]byte(nm))
			base = append(base, fmt.Sprintf("flush %d", sid), fmt.Sprintf("close %d", sid), fmt.Sprintf("open %d %d", nsid, gs.fid))
			for i := 0; i < 3; i++ {
				if i > 0 && h%3 != 0 {
					// every round meets a cold tree again
					base = append(base, fmt.Sprintf("flush %d", nsid), fmt.Sprintf("close %d", nsid), fmt.Sprintf("open %d %d", nsid, gs.fid))
				}
				round := []string{
					fmt.Sprintf("del %d %s %s", nsid, hn, hx(g.key())),
					fmt.Sprintf("set %d %s %s %s %d", nsid, hn, hx(g.key()), hx(g.val()), 2000000000+i),
					// bottom- and middle-priority inserts descend through union's recursion instead
					fmt.Sprintf("set %d %s %s %s %d", nsid, hn, hx(g.key()), hx(g.val()), i),
					fmt.Sprintf("set %d %s %s %s %d", nsid, hn, hx(g.key()), hx(g.val()), g.r.Intn(1<<31)),
					fmt.Sprintf("set %d %s %s %s %d", nsid, hn, hx(g.key()), hx(g.val()), g.r.Intn(1<<20)),
					fmt.Sprintf("del %d %s %s", nsid, hn, hx(g.key())),
				}
				// in any order: a top-priority insert splits from the root and loads most of a small
				// tree, so what comes after it finds little left to read; in two histories out of three
				// the cold tree is met by something else first
				if h%3 != 0 {
					g.r.Shuffle(len(round), func(a, b int) { round[a], round[b] = round[b], round[a] })
				}
				base = append(base, round...)
			}
			base = append(base, fmt.Sprintf("totals %d %s", nsid, hn), fmt.Sprintf("shape %d %s", nsid, hn), fmt.Sprintf("dump %d", nsid))
			break
		}
		// dry run: file calls per operation
		w := newWorld()
		var pts []injPoint
		for i, l := range base {
			before := w.fileCalls()
			// zero-valued entries for files that do not exist yet
			w.Exec(l)
			after := w.fileCalls()
			kind := opKind(l)
			if (kind == "exist" && !*injExist) || kind == "evict" || kind == "image" || kind == "dump" || kind == "crash" {
				continue // no error result (EvictSomeItems is best effort; Exist: see F14) / harness composite
			}
			for fid, a := range after {
				n := a - before[fid]
				if n <= 0 {
					continue
				}
				for k := 1; k <= n; k++ {
					pts = append(pts, injPoint{i, fid, k, -1})
				}
				// torn writes: sample lengths for the writes of this op
				f := w.files[fid]
				for k := 1; k <= n; k++ {
					ev := f.Log[before[fid]+k-1]
					if ev.Kind != 'W' || ev.Len == 0 {
						continue
					}
					lens := []int{1, ev.Len / 2, ev.Len - 1}
					if *tier == "thorough" && ev.Len <= 80 {
						lens = nil
						for j := 1; j < ev.Len; j++ {
							lens = append(lens, j)
						}
					}
					for _, j := range lens {
						if j > 0 && j < ev.Len {
							pts = append(pts, injPoint{i, fid, k, j})
						}
					}
				}
			}
		}
		extra["points_total"] += len(pts)
		if *maxPts > 0 && len(pts) > *maxPts {
			// keep every fault point inside a mutation (the richest failure modes), sample the rest
			var must, rest []injPoint
			for _, pt := range pts {
				switch opKind(base[pt.op]) {
				case "set", "del", "setroot", "copy", "write", "revert":
					must = append(must, pt)
				case "iter", "visit":
					if *prof == "C11" {
						p.Name = "C07-C11"
						p.Copy, p.Set, p.Get, p.GetI, p.Revert, p.Iter, p.MaxColls = 12, 40, 2, 2, 1, 0, 3
					}
					if *prof == "C18" {
						must = append(must, pt)
					} else {
						rest = append(rest, pt)
					}
				default:
					rest = append(rest, pt)
				}
			}
			r.Shuffle(len(must), func(i, j int) { must[i], must[j] = must[j], must[i] })
			if len(must) > *maxPts {
				must = must[:*maxPts]
			}
			r.Shuffle(len(rest), func(i, j int) { rest[i], rest[j] = rest[j], rest[i] })
			if len(rest) > *maxPts {
				rest = rest[:*maxPts]
			}
			pts = append(must, rest...)
		}
		for _, pt := range pts {
			w := newWorld()
			fired := false
			for i, l := range base {
				if i != pt.op {
					emit(l, w.Exec(l))
					continue
				}
				fl := fmt.Sprintf("fault %d %d %d", pt.fid, pt.k, pt.torn)
				emit(fl, w.Exec(fl))
				o := w.Exec(l)
				ul := fmt.Sprintf("unfault %d", pt.fid)
				uo := w.Exec(ul)
				if w.lastFired {
					fired = true
					extra["fired"]++
					extra["fired_"+opKind(l)]++
					emit("failop "+l, o)
					emit(ul, uo)
					emit("heapcheck", w.Exec("heapcheck"))
					f := strings.Fields(l)
					switch f[0] {
					case "open":
						emit(l, w.Exec(l)) // the file works again: retry
					case "revert":
						// the store must be re-opened after a failed FlushRevert; a SNAPSHOT whose
						// revert failed is only dropped (opening it again would put a second
						// writable store on a file whose original is still open)
						wasSnap := w.ro[atoi(f[1])]
						dl := "drop " + f[1]
						emit(dl, w.Exec(dl))
						if !wasSnap {
							ol := fmt.Sprintf("open %s %d", f[1], pt.fid)
							emit(ol, w.Exec(ol))
						}
					case "get", "geti", "min", "max", "visit", "totals", "len", "iter":
						// "once the file works again all later operations behave as if the failed
						// call had never been made": the first such operation is the same call again
						emit(l, w.Exec(l))
					case "copy":
						rl := "rmfile " + f[3] // whatever a failed CopyTo left in its destination is discarded
						emit(rl, w.Exec(rl))
					case "flush":
						switch r.Intn(4) {
						case 0, 1:
							emit(l, w.Exec(l)) // retried Flush
						case 2:
							// FlushRevert straight after the failed Flush: back to the flush before
							// the last completed one, whatever the failed one left in the file
							// README: FlushRevert on the main store invalidates its active snapshots and
							// the application must stop using them, so they are closed first (as the
							// history generator does before every revert)
							for _, sid := range openSnapshotsOf(base[:i], f[1]) {
								cl := "close " + sid
								emit(cl, w.Exec(cl))
							}
							rl := "revert " + f[1]
							emit(rl, w.Exec(rl))
							nl := "names " + f[1]
							emit(nl, w.Exec(nl))
							dl := "dump " + f[1]
							emit(dl, w.Exec(dl))
						}
					}
				} else {
					extra["not_fired"]++
					emit(l, o)
					emit(ul, uo)
				}
				if w.dead {
					break
				}
			}
			_ = fired
			// the durable state on every file, and a heap check
			var fids []int
			for id := range w.files {
				fids = append(fids, id)
			}
			sort.Ints(fids)
			for _, id := range fids {
				l := fmt.Sprintf("opendump %d", id)
				emit(l, w.Exec(l))
				l = fmt.Sprintf("appendcheck %d", id)
				emit(l, w.Exec(l))
			}
			emit("heapcheck", w.Exec("heapcheck"))
			st.Histories++
			if w.dead {
				dead = true
				break
			}
		}
		if h < 1 {
			for _, l := range base {
				if len(l) > 160 {
					l = l[:160] + "..."
				}
				st.Samples = append(st.Samples, l)
			}
		}
	}
	st.Distinct = st.Histories
	bo.Flush()
	bi.Flush()
	fo.Close()
	fi.Close()
	out := map[string]interface{}{"stats": st, "extra": extra}
	js, _ := json.MarshalIndent(out, "", " ")
	os.WriteFile(filepath.Join(*dir, "stats.json"), js, 0644)
	if dead {
		os.Exit(3)
	}
}

// openSnapshotsOf lists, in creation order, the snapshots (transitively) taken from store sid in
// the given prefix of a history that have not been closed or dropped in it.
func openSnapshotsOf(lines []string, sid string) []string {
	from := map[string]bool{sid: true}
	var out []string
	gone := map[string]bool{}
	for _, l := range lines {
		t := strings.Fields(l)
		switch {
		case len(t) == 3 && t[0] == "snap" && from[t[1]]:
			from[t[2]] = true
			out = append(out, t[2])
			delete(gone, t[2])
		case len(t) == 2 && (t[0] == "close" || t[0] == "drop"):
			gone[t[1]] = true
		}
	}
	var res []string
	for _, s := range out {
		if !gone[s] {
			res = append(res, s)
		}
	}
	return res
}

// ---- C08: revert boundary sweep ----
// The most recent Flush appends a number of bytes that crosses every power of two from 512 to
// 8192 (every size in [2^k-56, 2^k+24]); FlushRevert must land on the flush before it, and once
// more on the one before that.  (A backward scan that works in blocks has its off-by-a-few errors
// exactly there; the junk-tail sweep of the crash stream is the same idea for re-opening.)
func cmdC08Sweep(args []string) {
	fs := flag.NewFlagSet("c08s", flag.ExitOnError)
	fs.Int64("seed", 1, "unused")
	tier := fs.String("tier", "quick", "tier")
	dir := fs.String("dir", ".", "output directory")
	fs.Int("n", 0, "unused")
	fs.Parse(args)
	base := func(l int) []string {
		return []string{"reset", "cfg 0", "open 1 1", "setcoll 1 h61",
			"set 1 h61 h6b30 h7630 5", "flush 1",
			"set 1 h61 h6b31 h7631 6", "flush 1",
			fmt.Sprintf("set 1 h61 h6b32 %s 7", hx(bytes.Repeat([]byte{'v'}, l))), "flush 1"}
	}
	// overhead of the last flush beyond the value bytes, measured on the real package
	size := func(l int) int {
		w := newWorld()
		for _, ln := range base(l) {
			w.Exec(ln)
		}
		return len(w.files[1].Data)
	}
	sizeBefore := func() int {
		w := newWorld()
		for _, ln := range base(0)[:8] {
			w.Exec(ln)
		}
		return len(w.files[1].Data)
	}()
	overhead := size(0) - sizeBefore
	var hist [][]string
	step := 1
	if *tier != "thorough" {
		step = 1
	}
	for e := 9; e <= 13; e++ {
		for target := (1 << e) - 56; target <= (1<<e)+24; target += step {
			l := target - overhead
			if l < 0 {
				continue
			}
			h := base(l)
			h = append(h, "revert 1", "names 1", "dump 1", "opendump 1", "revert 1", "dump 1", "opendump 1",
				"set 1 h61 h6b33 h7633 8", "flush 1", "opendump 1")
			hist = append(hist, h)
		}
	}
	runLines(*dir, hist)
}

func extraCommand(name string, args []string) bool {
	switch name {
	case "c07":
		cmdC07(args)
		return true
	case "c05":
		cmdC05(args)
		return true
	case "c05s":
		cmdC05Stress(args)
		return true
	case "c08s":
		cmdC08Sweep(args)
		return true
	case "c13":
		cmdC13(args)
		return true
	case "c01x":
		cmdC01x(args)
		return true
	case "c03":
		cmdC03(args)
		return true
	case "c16":
		cmdC16(args)
		return true
	}
	return false
}
