package main

import (
	"bufio"
	"encoding/json"
	"flag"
	"fmt"
	"math/rand"
	"os"
	"path/filepath"
	"strings"
)

// runLines executes prepared histories and writes ops.txt / impl.txt / stats.json.
func runLines(dir string, hist [][]string) {
	os.MkdirAll(dir, 0755)
	fo, _ := os.Create(filepath.Join(dir, "ops.txt"))
	fi, _ := os.Create(filepath.Join(dir, "impl.txt"))
	bo, bi := bufio.NewWriterSize(fo, 1<<20), bufio.NewWriterSize(fi, 1<<20)
	st := stats{OpKinds: map[string]int{}, ObsKinds: map[string]int{}}
	w := newWorld()
	seen := map[uint64]bool{}
	for h, lines := range hist {
		seen[fnv([]byte(strings.Join(lines, "\n")))] = true
		for _, l := range lines {
			fmt.Fprintln(bo, l)
			bo.Flush()
			o := w.Exec(l)
			fmt.Fprintln(bi, o)
			st.Ops++
			st.OpKinds[opKind(l)]++
			st.ObsKinds[obsKind(o)]++
		}
		if h < 2 {
			for _, l := range lines {
				if len(l) > 160 {
					l = l[:160] + "..."
				}
				st.Samples = append(st.Samples, l)
			}
		}
		st.Histories++
		if w.dead {
			break
		}
	}
	st.Distinct = len(seen)
	bo.Flush()
	bi.Flush()
	fo.Close()
	fi.Close()
	js, _ := json.MarshalIndent(st, "", " ")
	os.WriteFile(filepath.Join(dir, "stats.json"), js, 0644)
	if w.dead {
		os.Exit(3)
	}
}

// c16: whole-collection enumerations at every size.
func cmdC16(args []string) {
	fs := flag.NewFlagSet("c16", flag.ExitOnError)
	seed := fs.Int64("seed", 1, "seed")
	tier := fs.String("tier", "quick", "tier")
	dir := fs.String("dir", ".", "output directory")
	fs.Parse(args)
	r := rand.New(rand.NewSource(*seed))
	var sizes []int
	for n := 0; n <= 70; n++ {
		sizes = append(sizes, n)
	}
	sizes = append(sizes, 1023, 1024, 1025, 2047, 2048, 2049)
	if *tier == "thorough" {
		sizes = append(sizes, 3071, 3072, 3073, 5000, 4096, 1500)
		for i := 0; i < 40; i++ {
			sizes = append(sizes, 71+r.Intn(1000))
		}
	}
	var hist [][]string
	for _, n := range sizes {
		name := []string{"a", "rv", "fo"}[r.Intn(3)]
		var l []string
		l = append(l, "reset", "cfg 0")
		file := r.Intn(2) == 0 && n < 200
		if file {
			l = append(l, "open 1 1")
		} else {
			l = append(l, "mem 1")
		}
		hn := hx([]byte(name))
		l = append(l, "setcoll 1 "+hn)
		if n <= 70 && r.Intn(2) == 0 {
			// random small keys with ties and deletes
			g := &Gen{r: r, p: Profile{}, keyPrio: map[string]int{}, usedPrio: map[int]bool{}}
			g.prioMode = r.Intn(5)
			for i := 0; i < n; i++ {
				k := []byte(fmt.Sprintf("%c%03d", 'a'+r.Intn(3), r.Intn(500)))
				l = append(l, fmt.Sprintf("set 1 %s %s %s %d", hn, hx(k), hx(g.val()), g.prio(name, k)))
			}
		} else {
			l = append(l, fmt.Sprintf("fill 1 %s %d", hn, n))
		}
		if file {
			l = append(l, "flush 1")
			if r.Intn(2) == 0 {
				l = append(l, "close 1", "open 1 1")
			}
		}
		l = append(l, "len 1 "+hn, "totals 1 "+hn)
		for _, mg := range []string{"id", "rev", "rand"} {
			l = append(l, fmt.Sprintf("blocks 1 %s %d %s", hn, r.Intn(2), mg))
		}
		l = append(l, "random 1 "+hn, "random 1 "+hn, "len 1 "+hn)
		hist = append(hist, l)
	}
	runLines(*dir, hist)
}

func extraCommand(name string, args []string) bool {
	switch name {
	case "c16":
		cmdC16(args)
		return true
	}
	return false
}
