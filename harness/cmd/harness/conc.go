package main

import (
	"bufio"
	"encoding/json"
	"flag"
	"fmt"
	"math/rand"
	"os"
	"path/filepath"
	"sort"
	"strings"
	"sync"
	"time"

	"github.com/cbehopkins/gkvlite"
)

// ---- deterministic cooperative scheduler (C05) ----
//
// Exactly one worker goroutine runs at a time.  A worker hands control back at every yield point:
// the verifYield hooks inside gkvlite, every call on the memfile, and every visitor callback.  The
// scheduler then resumes a worker chosen by the seeded PRNG.  No yield point is inside a lock
// region of gkvlite (that is what Props.Locks proves on the regenerated lock tables); if one
// ever were, the run would deadlock and the watchdog reports it as a violation.

type cworker struct {
	resume  chan struct{}
	yielded chan bool
	done    bool
}

type csched struct {
	r       *rand.Rand
	workers []*cworker
	cur     int
	active  bool
	steps   int
	// stall[i] > 0: worker i is passed over for that many scheduling steps while any other
	// worker can run (set when the flusher parks inside a file call, so that readers get to
	// run against the half-written state); drawn from r, so a seed still fixes the schedule
	stall map[int]int
}

func (s *csched) yield() {
	if !s.active {
		return
	}
	w := s.workers[s.cur]
	w.yielded <- false
	<-w.resume
}

// run executes the worker bodies to completion under a random schedule; false on timeout.
func (s *csched) run(bodies []func()) bool {
	s.workers = nil
	for range bodies {
		s.workers = append(s.workers, &cworker{resume: make(chan struct{}), yielded: make(chan bool)})
	}
	for i, b := range bodies {
		w, body := s.workers[i], b
		go func() {
			<-w.resume
			body()
			w.yielded <- true
		}()
	}
	s.active = true
	defer func() { s.active = false }()
	left := len(bodies)
	for left > 0 {
		var cand []int
		for i, w := range s.workers {
			if !w.done {
				cand = append(cand, i)
			}
		}
		if len(s.stall) > 0 {
			var free []int
			for _, c := range cand {
				if s.stall[c] > 0 {
					s.stall[c]--
				} else {
					free = append(free, c)
				}
			}
			if len(free) > 0 {
				cand = free
			}
		}
		i := cand[s.r.Intn(len(cand))]
		s.cur = i
		s.steps++
		s.workers[i].resume <- struct{}{}
		select {
		case fin := <-s.workers[i].yielded:
			if fin {
				s.workers[i].done = true
				left--
			}
		case <-time.After(10 * time.Second):
			return false
		}
	}
	return true
}

type concRec struct {
	line string
	obs  string
}

// concPhase runs one concurrent phase on store sid and returns the trace lines (cm/cr/cf) with
// the implementation's observations.
func (w *World) concPhase(r *rand.Rand, sid int, mut []string, readers [][]string, nFlush int) ([]concRec, bool, int) {
	st := w.stores[sid]
	fid := w.sfile[sid]
	mf := w.files[fid]
	sched := &csched{r: r}
	var mu sync.Mutex
	casCount := 0
	pinOf := map[int][]int{} // worker -> versions pinned during its current call
	gkvlite.VerifYieldFn = func(kind int) {
		if kind == 4 && sched.active && sched.cur == 0 && r.Intn(3) == 0 {
			// the mutator is between the two reads of itemLoc.Copy: let the flusher persist items
			// and the readers' visits evict them before it goes on
			if sched.stall == nil {
				sched.stall = map[int]int{}
			}
			sched.stall[0] = 8 + r.Intn(60)
		}
		sched.yield()
	}
	// which collection a version belongs to (C05: Flush captures the collections "in collection-name
	// order"): the versions current when the phase begins, then every version the mutator publishes
	// while it executes an operation on a known collection
	verName := map[uintptr]string{}
	for _, n := range st.GetCollectionNames() {
		verName[gkvlite.VerifRoot(st.GetCollection(n)).Addr] = n
	}
	curMutName := ""
	swaps := false
	for _, l := range mut {
		if strings.HasPrefix(l, "setcoll ") || strings.HasPrefix(l, "rmcoll ") {
			swaps = true // the repaired Flush may start its pins over: the pin sequence is not one pass
		}
	}
	var flushPinNames []string
	gkvlite.VerifEventFn = func(kind int, ver uintptr) {
		mu.Lock()
		defer mu.Unlock()
		switch kind {
		case gkvlite.VerifEvPublish:
			if sched.active && sched.cur == 0 { // only the mutator publishes versions of this store
				casCount++
				verName[ver] = curMutName
			}
		case gkvlite.VerifEvPin:
			if sched.active {
				pinOf[sched.cur] = append(pinOf[sched.cur], casCount)
				if sched.cur == 1 {
					flushPinNames = append(flushPinNames, verName[ver])
				}
			}
		}
	}
	opSeq := map[int]int{}
	if mf != nil {
		mf.Yield = func() {
			if sched.active && sched.cur == 1 && r.Intn(3) == 0 {
				// the flusher is about to make a file call: let the others run for a while first
				if sched.stall == nil {
					sched.stall = map[int]int{}
				}
				sched.stall[1] = 2 + r.Intn(14)
			}
			sched.yield()
		}
		mf.Who = func() string { return fmt.Sprintf("w%d.%d", sched.cur, opSeq[sched.cur]) }
	}
	defer func() {
		gkvlite.VerifYieldFn = nil
		gkvlite.VerifEventFn = nil
		if mf != nil {
			mf.Yield = nil
			mf.Who = nil
		}
	}()
	var cm, cr, cf []concRec
	var bodies []func()
	// worker 0: the mutator
	bodies = append(bodies, func() {
		for _, l := range mut {
			mu.Lock()
			before := casCount
			if f := strings.Fields(l); len(f) > 2 {
				nb, _ := unhx(f[2])
				curMutName = string(nb)
			}
			mu.Unlock()
			o := w.execSafe(strings.Fields(l))
			if strings.HasPrefix(l, "setcoll ") && o == "ok" {
				// SetCollection on an existing name publishes no new root (same items, new handle); the
				// model counts every successful mutator step as a version, so count it here too
				mu.Lock()
				if casCount == before {
					casCount++
				}
				mu.Unlock()
			}
			cm = append(cm, concRec{"cm " + l, o})
		}
	})
	// worker 1: the flusher
	bodies = append(bodies, func() {
		for i := 0; i < nFlush; i++ {
			mu.Lock()
			pinOf[1] = nil
			flushPinNames = nil
			mu.Unlock()
			var err error
			func() {
				defer func() {
					if r := recover(); r != nil {
						err = fmt.Errorf("panic:%v", r)
					}
				}()
				err = st.Flush()
			}()
			mu.Lock()
			ks := append([]int(nil), pinOf[1]...)
			// The repaired Flush starts its pins over when the mutator has replaced a handle under it:
			// what it persists are the pins of its LAST pass.  A pass pins the collections in name
			// order and an aborted pass is a proper prefix of that order, so the last pass begins at
			// the first position from which the pin names spell out all current names.
			cn := st.GetCollectionNames()
			sort.Strings(cn)
			for i := 0; i+len(cn) <= len(flushPinNames) && len(cn) > 0; i++ {
				match := true
				for j, n := range cn {
					if flushPinNames[i+j] != n {
						match = false
						break
					}
				}
				if match {
					ks = ks[i:]
					flushPinNames = flushPinNames[i:]
					break
				}
			}
			mu.Unlock()
			var kstr []string
			for _, k := range ks {
				kstr = append(kstr, fmt.Sprint(k))
			}
			obs := errClass(err)
			if err != nil && strings.HasPrefix(err.Error(), "panic:") {
				obs = "panic:Flush"
			}
			if err == nil && mf != nil {
				obs = openDigest(w, mf.Bytes())
			}
			mu.Lock()
			// Flush's own pins come first, one per collection; later pins of the same call
			// (MarshalJSON of each root while the root record is written) are not the capture
			first := flushPinNames
			if nc := len(st.GetCollectionNames()); len(first) > nc {
				first = first[:nc]
			}
			if !swaps && !sort.StringsAreSorted(first) {
				obs = "bad:flush-pins-not-in-name-order " + hx([]byte(strings.Join(first, ",")))
			}
			mu.Unlock()
			cf = append(cf, concRec{fmt.Sprintf("cf %d %s", sid, strings.Join(kstr, ",")), obs})
			sched.yield()
		}
	})
	for ri, prog := range readers {
		wi, p := ri+2, prog
		bodies = append(bodies, func() {
			for _, l := range p {
				mu.Lock()
				pinOf[wi] = nil
				opSeq[wi]++
				mytag := fmt.Sprintf("w%d.%d", wi, opSeq[wi])
				logStart := 0
				if mf != nil {
					logStart = len(mf.Log)
				}
				mu.Unlock()
				o := w.execSafe(strings.Fields(l))
				mu.Lock()
				k := -1
				if len(pinOf[wi]) > 0 {
					k = pinOf[wi][0]
				}
				mu.Unlock()
				if k < 0 {
					k = 0
				}
				if op := strings.Fields(l)[0]; op == "len" || op == "blocks" || op == "random" {
					// several passes over possibly different versions: only "no panic, no hang"
					if !strings.HasPrefix(o, "panic") && o != "hang" && o != "dead" {
						o = "ok"
					}
					cr = append(cr, concRec{"cx " + l, o})
					sched.yield()
					continue
				}
				cr = append(cr, concRec{fmt.Sprintf("cr %d %s", k, l), o})
				if mf != nil && keyOnlyOp(l) {
					// C19 under concurrency: the reads THIS call made (other workers' reads interleave)
					var rs []string
					for _, e := range mf.Log[logStart:] {
						if e.Tag == mytag && e.Kind == 'R' {
							rs = append(rs, fmt.Sprintf("r%d+%d", e.Off, e.Len))
						}
					}
					cr = append(cr, concRec{fmt.Sprintf("kreads %d", fid), strings.Join(rs, ",")})
				}
				sched.yield()
			}
		})
	}
	w.concYield = sched.yield
	ok := sched.run(bodies)
	w.concYield = nil
	out := []concRec{{"concbegin", "ok"}}
	out = append(out, cm...)
	out = append(out, cr...)
	out = append(out, cf...)
	out = append(out, concRec{"concend", "ok"})
	return out, ok, sched.steps
}

// execSafe runs an operation in the calling goroutine with panic recovery (no watchdog: the
// scheduler has its own).
func (w *World) execSafe(t []string) (obs string) {
	defer func() {
		if r := recover(); r != nil {
			msg := fmt.Sprint(r)
			if len(msg) > 60 {
				msg = msg[:60]
			}
			obs = "panic:" + strings.ReplaceAll(msg, " ", "_")
		}
	}()
	return w.exec(t)
}

func cmdC05(args []string) {
	fs := flag.NewFlagSet("c05", flag.ExitOnError)
	seed := fs.Int64("seed", 1, "seed")
	tier := fs.String("tier", "quick", "tier")
	dir := fs.String("dir", ".", "output directory")
	nh := fs.Int("n", 40, "histories")
	fs.Parse(args)
	_ = tier
	r := rand.New(rand.NewSource(*seed))
	os.MkdirAll(*dir, 0755)
	fo, _ := os.Create(filepath.Join(*dir, "ops.txt"))
	fi, _ := os.Create(filepath.Join(*dir, "impl.txt"))
	bo, bi := bufio.NewWriterSize(fo, 1<<20), bufio.NewWriterSize(fi, 1<<20)
	st := stats{OpKinds: map[string]int{}, ObsKinds: map[string]int{}}
	extra := map[string]int{}
	emit := func(l, o string) {
		fmt.Fprintln(bo, l)
		fmt.Fprintln(bi, o)
		st.Ops++
		st.OpKinds[opKind(l)]++
		st.ObsKinds[obsKind(o)]++
	}
	g := &Gen{r: r, p: Profile{}, keyPrio: map[string]int{}, usedPrio: map[int]bool{}}
	dead := false
	for h := 0; h < *nh && !dead; h++ {
		w := newWorld()
		g.prioMode = r.Intn(5)
		run := func(l string) { emit(l, w.Exec(l)) }
		run("reset")
		run("cfg 0")
		mem := r.Intn(4) == 0
		if mem {
			run("mem 1")
		} else {
			run("open 1 1")
		}
		names := []string{"a", "rv", "fo", "b"}[:1+r.Intn(3)]
		sort.Strings(names)
		for _, n := range names {
			run("setcoll 1 " + hx([]byte(n)))
		}
		// drain-race histories (one in six): ONE small collection that the mutator empties and refills
		// again and again, against readers that mostly make the multi-pass calls (Len, the block
		// visitors) and Min/Max — the calls that look at the collection more than once
		drain := r.Intn(6) == 0
		var drainKeys [][]byte
		if drain {
			names = names[:1]
		}
		// sequential preparation
		prep := r.Intn(25)
		if drain {
			prep = 1 + r.Intn(3)
		}
		for i, n := 0, prep; i < n; i++ {
			nm := names[r.Intn(len(names))]
			k := g.key()
			if drain {
				k = []byte{byte('p' + i)} // distinct keys, so the mutator can delete exactly these
				drainKeys = append(drainKeys, k)
			}
			run(fmt.Sprintf("set 1 %s %s %s %d", hx([]byte(nm)), hx(k), hx(g.val()), g.prio(nm, k)))
		}
		// flush-race histories: everything stays dirty, the phase is mostly flushes against readers
		// that walk the whole collection (a walk evicts what it leaves) and then read values
		race := !mem && !drain && r.Intn(3) == 0
		if race && len(names) > 0 {
			for i, n := 0, 3+r.Intn(10); i < n; i++ {
				nm := names[r.Intn(len(names))]
				k := g.key()
				run(fmt.Sprintf("set 1 %s %s %s %d", hx([]byte(nm)), hx(k), hx(g.val()), g.prio(nm, k)))
			}
		}
		if !mem && !race {
			run("flush 1")
			if r.Intn(2) == 0 {
				run("close 1")
				run("open 1 1")
			} else {
				for _, n := range names {
					run(fmt.Sprintf("evict 1 %s 3", hx([]byte(n))))
				}
			}
		}
		// programs
		var mut []string
		for i, n := 0, 2+r.Intn(14); i < n; i++ {
			nm := names[r.Intn(len(names))]
			if r.Intn(4) == 0 {
				mut = append(mut, fmt.Sprintf("del 1 %s %s", hx([]byte(nm)), hx(g.key())))
			} else {
				k := g.key()
				mut = append(mut, fmt.Sprintf("set 1 %s %s %s %d", hx([]byte(nm)), hx(k), hx(g.val()), g.prio(nm, k)))
			}
		}
		var readers [][]string
		for ri, nr := 0, 1+r.Intn(3); ri < nr; ri++ {
			var p []string
			for i, n := 0, 1+r.Intn(8); i < n; i++ {
				nm := hx([]byte(names[r.Intn(len(names))]))
				switch r.Intn(10) {
				case 8:
					p = append(p, fmt.Sprintf("len 1 %s", nm))
				case 9:
					if r.Intn(2) == 0 {
						p = append(p, fmt.Sprintf("random 1 %s", nm))
					} else {
						p = append(p, fmt.Sprintf("blocks 1 %s %d %s", nm, r.Intn(2), []string{"id", "rev", "rand"}[r.Intn(3)]))
					}
				case 6:
					p = append(p, fmt.Sprintf("geti 1 %s %s 0", nm, hx(g.key())))
				case 7:
					p = append(p, fmt.Sprintf("exist 1 %s %s", nm, hx(g.key())))
				case 0:
					p = append(p, fmt.Sprintf("get 1 %s %s", nm, hx(g.key())))
				case 1:
					p = append(p, fmt.Sprintf("min 1 %s %d", nm, r.Intn(2)))
				case 2:
					p = append(p, fmt.Sprintf("max 1 %s %d", nm, r.Intn(2)))
				case 3:
					p = append(p, fmt.Sprintf("totals 1 %s", nm))
				case 4:
					p = append(p, fmt.Sprintf("visit 1 %s asc %s %d -1", nm, hx(g.key()), r.Intn(2)))
				case 5:
					p = append(p, fmt.Sprintf("visit 1 %s desc %s %d -1", nm, hx([]byte{0xff, 0xff}), r.Intn(2)))
				}
			}
			readers = append(readers, p)
		}
		nFlush := 0
		if !mem {
			nFlush = r.Intn(3)
		}
		if drain {
			hn := hx([]byte(names[0]))
			mut = nil
			for round := 0; round < 2+r.Intn(3); round++ {
				for _, k := range drainKeys {
					mut = append(mut, fmt.Sprintf("del 1 %s %s", hn, hx(k)))
				}
				for _, k := range drainKeys {
					mut = append(mut, fmt.Sprintf("set 1 %s %s %s %d", hn, hx(k), hx(g.val()), g.prio(names[0], k)))
				}
			}
			readers = nil
			for ri, nr := 0, 2+r.Intn(2); ri < nr; ri++ {
				var p []string
				for i, n := 0, 4+r.Intn(6); i < n; i++ {
					switch r.Intn(6) {
					case 0:
						p = append(p, fmt.Sprintf("len 1 %s", hn))
					case 1, 2:
						p = append(p, fmt.Sprintf("random 1 %s", hn))
					case 3, 4:
						p = append(p, fmt.Sprintf("blocks 1 %s %d %s", hn, r.Intn(2), []string{"id", "rev", "rand"}[r.Intn(3)]))
					case 5:
						p = append(p, fmt.Sprintf("min 1 %s %d", hn, r.Intn(2)))
					}
				}
				readers = append(readers, p)
			}
			extra["drain_histories"]++
		}
		if race {
			nFlush = 2 + r.Intn(2)
			if len(mut) > 3 {
				mut = mut[:r.Intn(4)]
			}
			readers = nil
			for ri, nr := 0, 2+r.Intn(2); ri < nr; ri++ {
				var p []string
				for i, n := 0, 3+r.Intn(6); i < n; i++ {
					nm := hx([]byte(names[r.Intn(len(names))]))
					if r.Intn(2) == 0 {
						p = append(p, fmt.Sprintf("visit 1 %s desc %s %d -1", nm, hx([]byte{0xff, 0xff}), r.Intn(2)))
					} else {
						p = append(p, fmt.Sprintf("visit 1 %s asc %s %d -1", nm, hx([]byte{0}), r.Intn(2)))
					}
					switch r.Intn(4) {
					case 0:
						p = append(p, fmt.Sprintf("get 1 %s %s", nm, hx(g.key())))
					case 1:
						p = append(p, fmt.Sprintf("min 1 %s 1", nm))
					case 2:
						p = append(p, fmt.Sprintf("max 1 %s 1", nm))
					case 3:
						p = append(p, fmt.Sprintf("visit 1 %s asc %s 1 -1", nm, hx([]byte{0})))
					}
				}
				readers = append(readers, p)
			}
			extra["race_histories"]++
		}
		// handle-swap histories: the mutator re-issues SetCollection on existing names (the documented
		// way to install a comparator) while the flusher runs; no readers, because a reader that holds
		// the replaced handle is the application's own misuse (DESIGN.md section 10)
		if !mem && !drain && !race && len(names) >= 2 && r.Intn(5) == 0 {
			readers = nil
			nFlush = 6 + r.Intn(8) // a Flush of clean trees is short: many of them, so that some overlap the swaps
			var m2 []string
			for _, l := range mut {
				m2 = append(m2, l)
				if r.Intn(2) == 0 {
					m2 = append(m2, "setcoll 1 "+hx([]byte(names[r.Intn(len(names))])))
				}
			}
			mut = append(m2, "setcoll 1 "+hx([]byte(names[len(names)-1])))
			extra["handle_swap_histories"]++
		}
		recs, ok, steps := w.concPhase(r, 1, mut, readers, nFlush)
		extra["sched_steps"] += steps
		extra["reader_calls"] += len(recs) - len(mut) - nFlush - 2
		for _, rec := range recs {
			emit(rec.line, rec.obs)
		}
		if !ok {
			emit("sched-timeout", "hang")
			dead = true
			break
		}
		run("dump 1")
		run("heapcheck")
		st.Histories++
		if h < 2 {
			st.Samples = append(st.Samples, "mutator: "+strings.Join(mut, " ; "))
			for _, p := range readers {
				st.Samples = append(st.Samples, "reader: "+strings.Join(p, " ; "))
			}
		}
	}
	st.Distinct = st.Histories
	bo.Flush()
	bi.Flush()
	fo.Close()
	fi.Close()
	js, _ := json.MarshalIndent(map[string]interface{}{"stats": st, "extra": extra}, "", " ")
	os.WriteFile(filepath.Join(*dir, "stats.json"), js, 0644)
	if dead {
		os.Exit(3)
	}
}

func keyOnlyOp(l string) bool {
	f := strings.Fields(l)
	switch f[0] {
	case "exist":
		return true
	case "geti":
		return f[4] == "0"
	case "min", "max":
		return f[3] == "0"
	case "visit":
		return f[5] == "0"
	}
	return false
}
