package main

import (
	"fmt"
	"sort"

	"github.com/cbehopkins/gkvlite"
)

// heapCheck evaluates the clauses of the recycling invariant (DESIGN.md C10) on the real heap:
// for every open handle, no cached-reachable node is on the free list or zeroed; every mark is
// nil or the mark of a version that is still alive (the handle's own, another open handle's, or
// one they chain to); the tree of a writable handle carries no mark at all; refs >= 1.
func (w *World) heapCheck() string {
	free := map[uintptr]bool{}
	for _, a := range gkvlite.VerifFreeNodes() {
		free[a] = true
	}
	var sids []int
	for s := range w.stores {
		sids = append(sids, s)
	}
	sort.Ints(sids)
	liveMarks := map[uintptr]bool{}
	type h struct {
		sid  int
		name string
		c    *gkvlite.Collection
		ro   bool
	}
	var hs []h
	for _, s := range sids {
		st := w.stores[s]
		for _, n := range st.GetCollectionNames() {
			c := st.GetCollection(n)
			ri := gkvlite.VerifRoot(c)
			if ri.Addr == 0 {
				return fmt.Sprintf("bad:closed-handle-in-store sid=%d name=%x", s, n)
			}
			if ri.Refs < 1 {
				return fmt.Sprintf("bad:refs<1 sid=%d name=%x refs=%d", s, n, ri.Refs)
			}
			liveMarks[ri.Mark] = true
			for _, m := range ri.ChainMarks {
				liveMarks[m] = true
			}
			hs = append(hs, h{s, n, c, w.ro[s]})
		}
	}
	for _, x := range hs {
		bad := ""
		cnt := 0
		gkvlite.VerifWalk(x.c, func(n gkvlite.VerifNodeInfo) {
			cnt++
			if bad != "" {
				return
			}
			switch {
			case free[n.Addr]:
				bad = "freed-node-reachable"
			case n.NumNodes == 0:
				bad = "zeroed-node-reachable"
			case n.Mark != 0 && !liveMarks[n.Mark]:
				bad = "dead-mark-on-live-node"
			case n.Mark != 0 && !x.ro:
				bad = "current-version-marked"
			}
		})
		if bad != "" {
			return fmt.Sprintf("bad:%s sid=%d name=%x", bad, x.sid, x.name)
		}
	}
	return "ok"
}
