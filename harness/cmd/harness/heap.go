package main

import (
	"fmt"
	"sort"

	"github.com/cbehopkins/gkvlite"
)

// heapCheck evaluates the clauses of the recycling invariant (DESIGN.md C10) on the real heap:
// for every open handle, no cached-reachable node is on the free list or zeroed; every mark is
// nil or the mark of a version that is still alive (the handle's own, another open handle's, or
// one they chain to); the tree of a writable handle carries no mark at all; refs >= 1.
func (w *World) heapCheck() string {
	free := map[uintptr]bool{}
	for _, a := range gkvlite.VerifFreeNodes() {
		free[a] = true
	}
	var sids []int
	for s := range w.stores {
		sids = append(sids, s)
	}
	sort.Ints(sids)
	liveMarks := map[uintptr]bool{}
	type h struct {
		sid  int
		name string
		c    *gkvlite.Collection
		ro   bool
	}
	var hs []h
	for _, s := range sids {
		st := w.stores[s]
		for _, n := range st.GetCollectionNames() {
			c := st.GetCollection(n)
			ri := gkvlite.VerifRoot(c)
			if ri.Addr == 0 {
				return fmt.Sprintf("bad:closed-handle-in-store sid=%d name=%x", s, n)
			}
			if ri.Refs < 1 {
				return fmt.Sprintf("bad:refs<1 sid=%d name=%x refs=%d", s, n, ri.Refs)
			}
			liveMarks[ri.Mark] = true
			for _, m := range ri.ChainMarks {
				liveMarks[m] = true
			}
			hs = append(hs, h{s, n, c, w.ro[s]})
		}
	}
	for i, st := range w.abandoned {
		for _, n := range st.GetCollectionNames() {
			hs = append(hs, h{-1 - i, n, st.GetCollection(n), true})
		}
	}
	// reference accounting (clause `acct` of the invariant): between operations the only holders of
	// a version are handles; per lineage the oldest live version has refs = #handles, every newer
	// one refs = #handles + 1 (the chain reference of its live predecessor)
	type vkey struct{ lock, addr uintptr }
	handles := map[vkey]int{}
	refsOf := map[vkey]int64{}
	seqOf := map[vkey]uint64{}
	oldest := map[uintptr]uint64{}
	seen := map[uintptr]bool{}
	for _, x := range hs {
		ri := gkvlite.VerifRoot(x.c)
		k := vkey{ri.Lock, ri.Addr}
		handles[k]++
		refsOf[k] = ri.Refs
		seqOf[k] = ri.Seq
		if !seen[ri.Lock] || ri.Seq < oldest[ri.Lock] {
			oldest[ri.Lock] = ri.Seq
			seen[ri.Lock] = true
		}
	}
	var keys []vkey
	for k := range handles {
		keys = append(keys, k)
	}
	sort.Slice(keys, func(i, j int) bool {
		if keys[i].lock != keys[j].lock {
			return keys[i].lock < keys[j].lock
		}
		return seqOf[keys[i]] < seqOf[keys[j]]
	})
	for _, k := range keys {
		want := int64(handles[k])
		if seqOf[k] != oldest[k.lock] {
			want++
		}
		if refsOf[k] != want {
			return fmt.Sprintf("bad:refs-accounting refs=%d handles=%d chained-in=%v", refsOf[k], handles[k], seqOf[k] != oldest[k.lock])
		}
	}
	for _, x := range hs {
		bad := ""
		cnt := 0
		gkvlite.VerifWalk(x.c, func(n gkvlite.VerifNodeInfo) {
			cnt++
			if bad != "" {
				return
			}
			switch {
			case free[n.Addr]:
				bad = "freed-node-reachable"
			case n.NumNodes == 0:
				bad = "zeroed-node-reachable"
			case n.Mark != 0 && !liveMarks[n.Mark]:
				bad = "dead-mark-on-live-node"
			case n.Mark != 0 && !x.ro:
				bad = "current-version-marked"
			}
		})
		if bad != "" {
			return fmt.Sprintf("bad:%s sid=%d name=%x", bad, x.sid, x.name)
		}
	}
	return "ok"
}
