package main

import (
	"encoding/hex"
	"fmt"
	"math/rand"
	"sort"
	"strconv"
	"strings"
)

// Profile holds the operation weights of a history generator.
type Profile struct {
	Name                                                    string
	Ops                                                     int // operations per history
	Set, Del, Get, GetI, Exist, Min, Max, Totals, Names     int
	Flush, Evict, Reopen, Snap, SnapRead, SnapClose, Revert int
	Copy, Visit, SetColl, RmColl, Malformed, Dump, Shape    int
	Image, Len, Drop                                        int
	HeapCheck, Churn, NVisit, RefCheck, Stores              int
	CloseAll, NoGet                                         bool
	CloseSnapsOnReopen                                      bool     // after a failed Flush bytes beyond the last root are in use too
	FlushBeforeReopen                                       bool     // re-opened trees then hold everything, unloaded
	NoFinalDump                                             bool     // do not dump the open stores before the closing sequence
	Cold                                                    int      // weight of the composite 'cold mutation under a snapshot' step (see the generator)
	NoCmpCallback                                           bool     // stores are opened without KeyCompareForCollection; `setcoll` on every existing name follows each open
	Fill                                                    int      // weight of a large `fill` (70..260 items) into a file-backed store
	Chain                                                   int      // weight of a composite step: 66-80 sorted keys with rising (or falling) priorities = a tree that deep, then a copy
	FlushExtra, EndExtra                                    []string // templates with %F = file id
	KeyOnlyReads                                            bool     // C19: bracket key-only ops with rmark/kreads
	Iter, SetRoot, SnapRevert, Write, Blocks                int
	Forge                                                   int // weight of a composite step: flush; [one item whose value forges a root record at its own offset]; flush; revertspec (1-3 times)
	Any                                                     int // weight of a step through the convenience API: SetAny/GetAny/DeleteAny/ExistAny (keys of every type toBa accepts), Set (random priority), Name, Stats
	MemOnly                                                 int // percent of histories on a memory-only store
	MaxColls                                                int
	BigVals                                                 bool
	CopyOnto                                                bool     // some copies go onto a file that already holds a store (C09: appends there too)
	BadNames                                                bool // one history in four gets collection names that are not valid UTF-8 (JSON cannot carry them: Flush must refuse; profiles without CopyTo only)
	LongNames                                               bool // one history in five gets a collection name of 4100-4300 bytes: a root record longer than 4 KiB
	NoFold                                                  bool // do not use case-folding collections
	NoLowerOverwrite                                        bool // never overwrite a key with a lower priority (C13 heap order)
	DistinctPrio                                            bool
	MjsonBeforeFlush                                        bool // one Flush in three is preceded by Collection.MarshalJSON() on one of the store's collections
	TinyIncr                                                int  // percent of histories that begin with a tiny store grown by several small flushes, re-opened and mutated cold
	HugeVals                                                bool // about one value in 60 is 64 KiB or 128 KiB long, give or take a byte
	CacheOps                                                int // weight of a composite step: `cstate` then 3-8 of cget/cmin/cmax/cevict (Model L: exact answers, reads and cache transitions)
	Cfg                                                     func(r *rand.Rand) int
}

type gstore struct {
	sid, fid int
	mem, ro  bool
	names    map[string]bool
	durable  map[string]bool
	parent   int // for snapshots: sid of the origin
}

// Gen builds one history.
type Gen struct {
	r        *rand.Rand
	p        Profile
	lines    []string
	stores   map[int]*gstore
	nextSid  int
	nextFid  int
	prioMode int
	prioCtr  int
	keyPrio  map[string]int // (name/key) -> last priority, for NoLowerOverwrite
	namePool []string
	usedPrio map[int]bool
	anyToks  []string // arguments already passed to the *Any API in this history
}

var baseNames = []string{"a", "b", "rv", "fo", "q\"uo\\te", "n<&>", "\x01ctl", "caf\xc3\xa9", "u\xe2\x80\xa8ls", ""}

func (g *Gen) emit(f string, a ...interface{}) { g.lines = append(g.lines, fmt.Sprintf(f, a...)) }

func (g *Gen) key() []byte {
	r := g.r
	switch x := r.Intn(100); {
	case x < 70:
		return []byte{byte('a' + r.Intn(8))}
	case x < 80:
		return []byte{byte('A' + r.Intn(4)), byte('a' + r.Intn(3))}
	case x < 88:
		return []byte{byte('a' + r.Intn(4)), byte('A' + r.Intn(3))}
	case x < 93:
		return []byte{byte(r.Intn(256)), byte(r.Intn(256)), byte(r.Intn(3))}
	case x < 96:
		n := []int{255, 256, 300}[r.Intn(3)]
		b := make([]byte, n)
		for i := range b {
			b[i] = byte('a' + r.Intn(2))
		}
		return b
	default:
		return []byte{0}
	}
}

func (g *Gen) val() []byte {
	r := g.r
	switch x := r.Intn(100); {
	case x < 10:
		return []byte{}
	case x < 70:
		b := make([]byte, 1+r.Intn(6))
		for i := range b {
			b[i] = byte('0' + r.Intn(10))
		}
		return b
	case x < 80:
		return []byte("3e4a5p3e4a5p")
	case x < 86:
		return []byte("0g1t2r0g1t2r")
	case x < 90:
		return []byte("xx3e4a5p3e4a5pyy0g1t2r")
	case x < 93:
		// a value that is itself a well-formed root record (think of a backup of another store kept
		// as a value): complete in every field, but its trailer names an offset it does not lie at
		return framedRecord(int64(7+r.Intn(3)), []byte(`{"inner":{"o":0,"l":0}}`))
	default:
		n := 20 + r.Intn(60)
		if g.p.HugeVals && r.Intn(4) == 0 {
			// a value whose length is at, just below or just above a multiple of 64 KiB (the sizes at
			// which anything that moves a value in pieces has its last, full or empty, piece)
			n = (1+r.Intn(2))<<16 + []int{-1, 0, 0, 0, 1}[r.Intn(5)]
		} else if g.p.BigVals {
			switch r.Intn(4) {
			case 0:
				n = 1000 + r.Intn(3000)
			case 1:
				// around a power of two, so that header + key + value straddles it
				n = (1 << uint(9+r.Intn(4))) - 40 + r.Intn(50)
			}
		}
		b := make([]byte, n)
		for i := range b {
			b[i] = byte(r.Intn(256))
		}
		return b
	}
}

func (g *Gen) prio(name string, k []byte) int {
	var p int
	switch g.prioMode {
	case 0:
		p = g.r.Intn(1 << 31)
	case 1:
		p = g.r.Intn(4)
	case 2:
		g.prioCtr++
		p = g.prioCtr
	case 3:
		g.prioCtr++
		p = 1000000 - g.prioCtr
	default:
		p = g.r.Intn(50)
	}
	if g.p.DistinctPrio {
		for g.usedPrio[p] {
			p = g.r.Intn(1 << 31)
		}
		g.usedPrio[p] = true
	}
	if g.p.NoLowerOverwrite {
		kk := name + "/" + foldKey(name, k)
		if old, ok := g.keyPrio[kk]; ok && p < old {
			p = old + g.r.Intn(3)
			if g.p.DistinctPrio {
				for g.usedPrio[p] {
					p++
				}
				g.usedPrio[p] = true
			}
		}
		g.keyPrio[kk] = p
	}
	return p
}

func foldKey(name string, k []byte) string {
	if len(name) > 0 && name[0] == 'f' {
		return string(lowerASCII(k))
	}
	return string(k)
}

// installCmps: without the load-time comparator callback the application re-installs each
// collection's comparator with SetCollection on the existing name, right after opening.
func (g *Gen) installCmps(s *gstore) {
	if !g.p.NoCmpCallback {
		return
	}
	var ns []string
	for n := range s.names {
		ns = append(ns, n)
	}
	sort.Strings(ns)
	for _, n := range ns {
		g.emit("setcoll %d %s", s.sid, hx([]byte(n)))
	}
}

func (g *Gen) pickStore(writable bool) *gstore {
	var c []*gstore
	var ids []int
	for id := range g.stores {
		ids = append(ids, id)
	}
	sort.Ints(ids)
	for _, id := range ids {
		s := g.stores[id]
		if writable && s.ro {
			continue
		}
		c = append(c, s)
	}
	if len(c) == 0 {
		return nil
	}
	if !writable && g.r.Intn(3) > 0 { // prefer the main store
		for _, s := range c {
			if !s.ro {
				return s
			}
		}
	}
	return c[g.r.Intn(len(c))]
}

func (g *Gen) pickName(s *gstore, existing bool) string {
	var ns []string
	for n := range s.names {
		ns = append(ns, n)
	}
	sort.Strings(ns)
	if existing && len(ns) > 0 && g.r.Intn(20) > 0 {
		return ns[g.r.Intn(len(ns))]
	}
	return g.namePool[g.r.Intn(len(g.namePool))]
}

func (g *Gen) history() []string {
	r := g.r
	g.lines = nil
	g.stores = map[int]*gstore{}
	g.nextSid, g.nextFid = 1, 1
	g.prioMode = r.Intn(5)
	g.prioCtr = 0
	g.keyPrio = map[string]int{}
	g.usedPrio = map[int]bool{}
	g.anyToks = nil
	// name pool for this history
	g.namePool = nil
	perm := r.Perm(len(baseNames))
	nn := 1 + r.Intn(g.p.MaxColls)
	for _, i := range perm {
		n := baseNames[i]
		if g.p.NoFold && len(n) > 0 && n[0] == 'f' {
			continue
		}
		g.namePool = append(g.namePool, n)
		if len(g.namePool) >= nn {
			break
		}
	}
	if g.p.BadNames && r.Intn(4) == 0 {
		bad := []string{"\xff", "\xfe", "a\xc3", "\xed\xa0\x80", "\xc0\x80", "b\xf4\x90\x80\x80"}
		for i := 0; i < 1+r.Intn(2); i++ {
			g.namePool = append(g.namePool, bad[r.Intn(len(bad))])
		}
	}
	if g.p.LongNames && r.Intn(5) == 0 {
		n := 4100 + r.Intn(200)
		if r.Intn(4) == 0 {
			n = 66000 + r.Intn(1000) // a root record longer than 64 KiB
		}
		g.namePool = append(g.namePool, "L"+strings.Repeat("n", n))
	}
	g.emit("reset")
	cfg := 0
	if g.p.Cfg != nil {
		cfg = g.p.Cfg(r)
	}
	g.emit("cfg %d", cfg)
	main := &gstore{sid: g.nextSid, names: map[string]bool{}}
	g.nextSid++
	if r.Intn(100) < g.p.MemOnly {
		main.mem = true
		g.emit("mem %d", main.sid)
	} else {
		main.fid = g.nextFid
		g.nextFid++
		g.emit("open %d %d", main.sid, main.fid)
	}
	g.stores[main.sid] = main
	tiny := !main.mem && r.Intn(100) < g.p.TinyIncr
	for i := 0; i < 1+r.Intn(len(g.namePool)); i++ {
		if tiny && i > 0 {
			break
		}
		n := g.namePool[i]
		g.emit("setcoll %d %s", main.sid, hx([]byte(n)))
		main.names[n] = true
	}
	if tiny {
		// a tiny store (one collection) grown by several flushes of one or two tiny items each;
		// then, for every key it holds: re-opened (whatever was not flushed is gone, every node is
		// unloaded again) and mutated cold at that key.  Nodes whose children were persisted by
		// DIFFERENT flushes, with records only a few dozen bytes apart, are loaded for the first
		// time by a Delete / SetItem of their own key.
		var ns []string
		for n := range main.names {
			ns = append(ns, n)
		}
		sort.Strings(ns)
		nm := ns[0]
		hn := hx([]byte(nm))
		var keys [][]byte
		seen := map[byte]bool{}
		for round, m := 0, 2+r.Intn(3); round < m; round++ {
			for i, c := 0, 1+r.Intn(2); i < c; i++ {
				k := []byte{byte('a' + r.Intn(8))}
				v := []byte(fmt.Sprintf("%02d", r.Intn(100)))[:r.Intn(3)]
				if !seen[k[0]] {
					seen[k[0]] = true
					keys = append(keys, k)
				}
				g.emit("set %d %s %s %s %d", main.sid, hn, hx(k), hx(v), g.prio(nm, k))
			}
			g.emit("flush %d", main.sid)
		}
		main.durable = map[string]bool{}
		for n := range main.names {
			main.durable[n] = true
		}
		for _, k := range keys {
			g.emit("close %d", main.sid)
			delete(g.stores, main.sid)
			ns2 := &gstore{sid: g.nextSid, fid: main.fid, names: map[string]bool{}, durable: main.durable}
			g.nextSid++
			for n := range main.durable {
				ns2.names[n] = true
			}
			g.stores[ns2.sid] = ns2
			g.emit("open %d %d", ns2.sid, ns2.fid)
			g.installCmps(ns2)
			main = ns2
			if r.Intn(2) == 0 {
				g.emit("del %d %s %s", main.sid, hn, hx(k))
			} else {
				g.emit("set %d %s %s %s %d", main.sid, hn, hx(k), hx([]byte{'z'}), g.prio(nm, k))
			}
		}
	}
	for x := 1; x < g.p.Stores; x++ {
		o := &gstore{sid: g.nextSid, names: map[string]bool{}}
		g.nextSid++
		if r.Intn(2) == 0 {
			o.mem = true
			g.emit("mem %d", o.sid)
		} else {
			o.fid = g.nextFid
			g.nextFid++
			g.emit("open %d %d", o.sid, o.fid)
		}
		g.stores[o.sid] = o
		n := g.namePool[r.Intn(len(g.namePool))]
		g.emit("setcoll %d %s", o.sid, hx([]byte(n)))
		o.names[n] = true
	}
	type wop struct {
		w int
		f func()
	}
	p := g.p
	ops := []wop{
		{p.Set, func() {
			s := g.pickStore(r.Intn(30) > 0)
			if s == nil {
				return
			}
			n := g.pickName(s, true)
			k := g.key()
			g.emit("set %d %s %s %s %d", s.sid, hx([]byte(n)), hx(k), hx(g.val()), g.prio(n, k))
		}},
		{p.Del, func() {
			s := g.pickStore(r.Intn(30) > 0)
			if s == nil {
				return
			}
			g.emit("del %d %s %s", s.sid, hx([]byte(g.pickName(s, true))), hx(g.key()))
		}},
		{p.Get, func() {
			s := g.pickStore(false)
			if p.NoGet {
				// Get hands out Item.Val itself; where that is not the whole value (chunked in
				// memory) or the item must be released (reference counting), GetItem is used
				g.emit("geti %d %s %s 1", s.sid, hx([]byte(g.pickName(s, true))), hx(g.key()))
				return
			}
			g.emit("get %d %s %s", s.sid, hx([]byte(g.pickName(s, true))), hx(g.key()))
		}},
		{p.GetI, func() {
			s := g.pickStore(false)
			g.emit("geti %d %s %s %d", s.sid, hx([]byte(g.pickName(s, true))), hx(g.key()), r.Intn(2))
		}},
		{p.Exist, func() {
			s := g.pickStore(false)
			g.emit("exist %d %s %s", s.sid, hx([]byte(g.pickName(s, true))), hx(g.key()))
		}},
		{p.Min, func() {
			s := g.pickStore(false)
			g.emit("min %d %s %d", s.sid, hx([]byte(g.pickName(s, true))), r.Intn(2))
		}},
		{p.Max, func() {
			s := g.pickStore(false)
			g.emit("max %d %s %d", s.sid, hx([]byte(g.pickName(s, true))), r.Intn(2))
		}},
		{p.Totals, func() {
			s := g.pickStore(false)
			g.emit("totals %d %s", s.sid, hx([]byte(g.pickName(s, true))))
		}},
		{p.Len, func() {
			s := g.pickStore(false)
			g.emit("len %d %s", s.sid, hx([]byte(g.pickName(s, true))))
		}},
		{p.Blocks, func() {
			s := g.pickStore(false)
			hn := hx([]byte(g.pickName(s, true)))
			if r.Intn(3) == 0 {
				g.emit("random %d %s", s.sid, hn)
			} else {
				g.emit("blocks %d %s %d %s", s.sid, hn, r.Intn(2), []string{"id", "rev", "rand"}[r.Intn(3)])
			}
		}},
		{p.Names, func() { g.emit("names %d", g.pickStore(false).sid) }},
		{p.Flush, func() {
			s := g.pickStore(r.Intn(20) > 0)
			if s != nil {
				if p.MjsonBeforeFlush && r.Intn(3) == 0 {
					// the public Collection.MarshalJSON() (what json.Marshal(coll) calls) on a collection
					// that may be dirty, right before the Flush that will marshal it again
					g.emit("mjson %d %s", s.sid, hx([]byte(g.pickName(s, true))))
				}
				g.emit("flush %d", s.sid)
				if !s.ro && !s.mem {
					s.durable = map[string]bool{}
					for n := range s.names {
						s.durable[n] = true
					}
					for _, t := range p.FlushExtra {
						g.emit(strings.ReplaceAll(t, "%F", fmt.Sprint(s.fid)))
					}
				}
			}
		}},
		{p.Evict, func() {
			s := g.pickStore(false)
			g.emit("evict %d %s %d", s.sid, hx([]byte(g.pickName(s, true))), 1+r.Intn(4))
		}},
		{p.Reopen, func() {
			s := g.pickStore(true)
			if s == nil || s.mem {
				return
			}
			if p.Write > 0 || p.CloseSnapsOnReopen {
				// bytes written by Collection.Write lie beyond the last root record and the next
				// store opened on the file writes over them: snapshots still reading them go first
				var ids []int
				for id, t := range g.stores {
					if t.ro && t.fid == s.fid && !t.mem {
						ids = append(ids, id)
					}
				}
				sort.Ints(ids)
				for _, id := range ids {
					g.emit("close %d", id)
					delete(g.stores, id)
				}
			}
			if p.FlushBeforeReopen {
				g.emit("flush %d", s.sid)
				s.durable = map[string]bool{}
				for n := range s.names {
					s.durable[n] = true
				}
			}
			if p.Drop > 0 && r.Intn(100) < p.Drop {
				g.emit("drop %d", s.sid)
			} else {
				g.emit("close %d", s.sid)
			}
			delete(g.stores, s.sid)
			ns := &gstore{sid: g.nextSid, fid: s.fid, names: map[string]bool{}, durable: s.durable}
			g.nextSid++
			for n := range s.durable {
				ns.names[n] = true
			}
			g.stores[ns.sid] = ns
			g.emit("open %d %d", ns.sid, ns.fid)
			g.installCmps(ns)
			if len(ns.names) == 0 {
				n := g.namePool[r.Intn(len(g.namePool))]
				g.emit("setcoll %d %s", ns.sid, hx([]byte(n)))
				ns.names[n] = true
			}
		}},
		{p.Snap, func() {
			s := g.pickStore(false)
			if len(g.stores) > 5 {
				return
			}
			ns := &gstore{sid: g.nextSid, fid: s.fid, mem: s.mem, ro: true, names: map[string]bool{}, parent: s.sid}
			g.nextSid++
			for n := range s.names {
				ns.names[n] = true
			}
			g.stores[ns.sid] = ns
			g.emit("snap %d %d", s.sid, ns.sid)
		}},
		{p.SnapClose, func() {
			var ids []int
			for id, s := range g.stores {
				if s.ro {
					ids = append(ids, id)
				}
			}
			if len(ids) == 0 {
				return
			}
			sort.Ints(ids)
			id := ids[r.Intn(len(ids))]
			g.emit("close %d", id)
			delete(g.stores, id)
		}},
		{p.Revert, func() {
			s := g.pickStore(true)
			if s == nil {
				return
			}
			// snapshots of a reverted store are undefined afterwards (documented): close them first
			var ids []int
			for id, t := range g.stores {
				if t.ro && t.fid == s.fid && !t.mem {
					ids = append(ids, id)
				}
			}
			sort.Ints(ids)
			for _, id := range ids {
				g.emit("close %d", id)
				delete(g.stores, id)
			}
			g.emit("revert %d", s.sid)
			g.emit("names %d", s.sid)
		}},
		{p.Copy, func() {
			s := g.pickStore(false)
			ns := &gstore{sid: g.nextSid, fid: g.nextFid, names: map[string]bool{}}
			g.nextSid++
			g.nextFid++
			for n := range s.names {
				ns.names[n] = true
			}
			fe := []int{-1, 0, 1, 2, 3, 5, 100}[r.Intn(7)]
			if g.p.CopyOnto && r.Intn(3) == 0 {
				g.emit("appendcheck onto:%d:%d", s.sid, []int{0, 1, 2, 5}[r.Intn(4)]) // destination already holds a store
			}
			g.emit("copy %d %d %d %d", s.sid, ns.sid, ns.fid, fe)
			g.emit("dump %d", ns.sid)
			g.emit("image %d", ns.fid)
			if fe > 0 {
				g.emit("opendump %d", ns.fid) // the destination file re-opens to that same state
			}
			g.emit("close %d", ns.sid)
		}},
		{p.Visit, func() {
			s := g.pickStore(false)
			dir := []string{"asc", "desc"}[r.Intn(2)]
			var tgt []byte
			switch r.Intn(6) {
			case 0:
				tgt = nil
			case 1:
				tgt = []byte{}
			case 2:
				tgt = []byte{0xff, 0xff}
			default:
				tgt = g.key()
			}
			stop := -1
			if r.Intn(3) == 0 {
				stop = r.Intn(5)
			}
			g.emit("visit %d %s %s %s %d %d", s.sid, hx([]byte(g.pickName(s, true))), dir, hx(tgt), r.Intn(2), stop)
		}},
		{p.SetColl, func() {
			s := g.pickStore(true)
			if s == nil {
				return
			}
			n := g.pickName(s, r.Intn(2) == 0)
			g.emit("setcoll %d %s", s.sid, hx([]byte(n)))
			s.names[n] = true
		}},
		{p.RmColl, func() {
			s := g.pickStore(true)
			if s == nil {
				return
			}
			n := g.pickName(s, true)
			g.emit("rmcoll %d %s", s.sid, hx([]byte(n)))
			delete(s.names, n)
		}},
		{p.Malformed, func() {
			s := g.pickStore(r.Intn(3) > 0)
			if s == nil {
				return
			}
			n := hx([]byte(g.pickName(s, true)))
			switch r.Intn(7) {
			case 0:
				g.emit("set %d %s h %s 5", s.sid, n, hx(g.val()))
			case 1:
				g.emit("set %d %s - %s 5", s.sid, n, hx(g.val()))
			case 2:
				g.emit("set %d %s %s - 5", s.sid, n, hx(g.key()))
			case 3:
				g.emit("set %d %s %s %s -1", s.sid, n, hx(g.key()), hx(g.val()))
			case 4:
				g.emit("set %d %s %s %s 3", s.sid, n, hx(make([]byte, 65536)), hx(g.val()))
			case 5:
				b := make([]byte, 65535)
				b[0] = byte('a' + r.Intn(3))
				g.emit("set %d %s %s %s 7", s.sid, n, hx(b), hx(g.val()))
			case 6:
				g.emit("del %d %s -", s.sid, n)
			}
		}},
		{p.Iter, func() {
			s := g.pickStore(false)
			dir := []string{"asc", "desc"}[r.Intn(2)]
			var tgt []byte
			switch r.Intn(5) {
			case 0:
				tgt = []byte{}
			case 1:
				tgt = []byte{0xff, 0xff}
			case 2:
				tgt = nil // hx(nil) = "-"
			default:
				tgt = g.key()
			}
			prog := ""
			for i, n := 0, r.Intn(9); i < n; i++ {
				prog += string("NNNNCR"[r.Intn(6)])
			}
			if prog == "" {
				prog = "R"
			}
			g.emit("iter %d %s %s %s %d %s", s.sid, hx([]byte(g.pickName(s, true))), dir, hx(tgt), r.Intn(2), prog)
		}},
		{p.SetRoot, func() {
			s := g.pickStore(true)
			if s == nil || s.mem {
				return
			}
			n := g.pickName(s, true)
			k := g.key()
			g.emit("setroot %d %s %s %d %d", s.sid, hx([]byte(n)), hx(k), g.prio(n, k), r.Intn(4))
		}},
		{p.CacheOps, func() {
			// a burst of lookups and evictions on one version of one collection: the model is told
			// the cached view once and must predict every answer, every file read and every view
			// that follows (the writable store in any state: dirty, flushed, evicted, re-opened.  Not
			// through snapshots: a snapshot shares its node objects with the original, so a later Flush
			// of the original gives them locations, which the model's snapshot - a value - does not see)
			s := g.pickStore(true)
			if s == nil || s.mem {
				return
			}
			hn := hx([]byte(g.pickName(s, true)))
			g.emit("cstate %d %s", s.sid, hn)
			for i, m := 0, 3+r.Intn(6); i < m; i++ {
				switch r.Intn(10) {
				case 8, 9:
					var tgt []byte
					if r.Intn(3) > 0 {
						tgt = g.key()
					}
					stop := 0
					if r.Intn(2) == 0 {
						stop = 1 + r.Intn(6)
					}
					g.emit("cvisit %d %s %s %s %d %d", s.sid, hn, []string{"asc", "desc"}[r.Intn(2)], hx(tgt), r.Intn(2), stop)
				case 0, 1, 2, 3:
					g.emit("cget %d %s %s %d", s.sid, hn, hx(g.key()), r.Intn(2))
				case 4:
					g.emit("cmin %d %s %d", s.sid, hn, r.Intn(2))
				case 5:
					g.emit("cmax %d %s %d", s.sid, hn, r.Intn(2))
				default:
					g.emit("cevict %d %s", s.sid, hn)
				}
			}
		}},
		{p.Cold, func() {
			// cold mutation under a snapshot: a deeper tree is flushed and the store re-opened (every
			// node unloaded), a snapshot is taken at once, existing keys are deleted / overwritten in
			// the original before anything else has loaded the tree, and the snapshot then reads
			// (without evicting) below the replaced nodes
			s := g.pickStore(true)
			if s == nil || s.mem || len(g.stores) > 4 {
				return
			}
			nm := g.pickName(s, true)
			hn := hx([]byte(nm))
			n := 8 + r.Intn(24)
			var keys [][]byte
			for i := 0; i < n; i++ {
				k := []byte(fmt.Sprintf("c%03d", r.Intn(400)))
				keys = append(keys, k)
				g.emit("set %d %s %s %s %d", s.sid, hn, hx(k), hx(g.val()), g.prio(nm, k))
			}
			g.emit("flush %d", s.sid)
			s.durable = map[string]bool{}
			for x := range s.names {
				s.durable[x] = true
			}
			var snaps []int
			for id, t := range g.stores {
				if t.ro && t.fid == s.fid && !t.mem {
					snaps = append(snaps, id)
				}
			}
			sort.Ints(snaps)
			for _, id := range snaps {
				g.emit("close %d", id)
				delete(g.stores, id)
			}
			g.emit("close %d", s.sid)
			delete(g.stores, s.sid)
			ns := &gstore{sid: g.nextSid, fid: s.fid, names: map[string]bool{}, durable: s.durable}
			g.nextSid++
			for x := range s.durable {
				ns.names[x] = true
			}
			g.stores[ns.sid] = ns
			g.emit("open %d %d", ns.sid, ns.fid)
			g.installCmps(ns)
			sn := &gstore{sid: g.nextSid, fid: ns.fid, ro: true, names: map[string]bool{}, parent: ns.sid}
			g.nextSid++
			for x := range ns.names {
				sn.names[x] = true
			}
			g.stores[sn.sid] = sn
			g.emit("snap %d %d", ns.sid, sn.sid)
			for i, m := 0, 1+r.Intn(3); i < m; i++ {
				k := keys[r.Intn(len(keys))]
				if r.Intn(3) == 0 {
					g.emit("set %d %s %s %s %d", ns.sid, hn, hx(k), hx(g.val()), g.prio(nm, k))
				} else {
					g.emit("del %d %s %s", ns.sid, hn, hx(k))
				}
			}
			for i, m := 0, 2+r.Intn(5); i < m; i++ {
				switch r.Intn(6) {
				case 0:
					g.emit("min %d %s %d", sn.sid, hn, r.Intn(2))
				case 1:
					g.emit("max %d %s %d", sn.sid, hn, r.Intn(2))
				default:
					g.emit("geti %d %s %s %d", sn.sid, hn, hx(keys[r.Intn(len(keys))]), r.Intn(2))
				}
			}
		}},
		{p.Any, func() {
			fresh := func() string {
				switch r.Intn(7) {
				case 0, 1:
					return fmt.Sprintf("i:%d", []int{0, 1, -1, 7, 10, -10, 12, 100, -2147483648, 9223372036854775807}[r.Intn(10)])
				case 2:
					l := [][]int{{}, {1}, {12}, {1, 2}, {-1, 2}, {1, -2}, {0, 0, 0}, {10, 0}, {1, 20}}[r.Intn(9)]
					f := make([]string, len(l))
					for i, x := range l {
						f[i] = strconv.Itoa(x)
					}
					return "l:" + strings.Join(f, ",")
				case 3:
					return "s:" + hex.EncodeToString([][]byte{[]byte("a"), []byte("1,2"), []byte("12"), []byte("-1"), g.key(), {}}[r.Intn(6)])
				case 4:
					if r.Intn(8) == 0 {
						return "b:-"
					}
					return "b:" + hex.EncodeToString(g.key())
				case 5:
					return "B:" + hex.EncodeToString([][]byte{[]byte("1"), []byte("a"), g.key(), {}}[r.Intn(4)])
				default:
					return "s:" + hex.EncodeToString(g.key())
				}
			}
			anyTok := func() string {
				if len(g.anyToks) > 0 && r.Intn(10) < 8 {
					return g.anyToks[r.Intn(len(g.anyToks))] // mostly arguments seen before, so that reads and deletes hit
				}
				t := fresh()
				if len(g.anyToks) < 24 {
					g.anyToks = append(g.anyToks, t)
				}
				return t
			}
			seedPrio := func() (int64, int32) {
				sd := r.Int63()
				return sd, rand.New(rand.NewSource(sd)).Int31()
			}
			switch x := r.Intn(100); {
			case x < 35:
				s := g.pickStore(r.Intn(30) > 0)
				if s == nil {
					return
				}
				sd, pr := seedPrio()
				g.emit("seta %d %s %s %s %d %d", s.sid, hx([]byte(g.pickName(s, true))), anyTok(), anyTok(), sd, pr)
			case x < 50:
				s := g.pickStore(r.Intn(30) > 0)
				if s == nil {
					return
				}
				sd, pr := seedPrio()
				v := hx(g.val())
				if r.Intn(10) == 0 {
					v = "-" // a nil value: rejected by SetItem, so it must be rejected here too
				}
				g.emit("setr %d %s %s %s %d %d", s.sid, hx([]byte(g.pickName(s, true))), hx(g.key()), v, sd, pr)
			case x < 68:
				s := g.pickStore(false)
				g.emit("geta %d %s %s", s.sid, hx([]byte(g.pickName(s, true))), anyTok())
			case x < 78:
				s := g.pickStore(false)
				g.emit("exa %d %s %s", s.sid, hx([]byte(g.pickName(s, true))), anyTok())
			case x < 90:
				s := g.pickStore(r.Intn(30) > 0)
				if s == nil {
					return
				}
				g.emit("dela %d %s %s", s.sid, hx([]byte(g.pickName(s, true))), anyTok())
			case x < 93:
				s := g.pickStore(true)
				if s == nil {
					return
				}
				g.emit("name %d %s", s.sid, hx([]byte(g.pickName(s, true))))
			case x < 95:
				s := g.pickStore(true)
				if s == nil {
					return
				}
				nm, k := g.pickName(s, true), g.key()
				if r.Intn(4) > 0 {
					g.emit("set %d %s %s %s %d", s.sid, hx([]byte(nm)), hx(k), hx(g.val()), g.prio(nm, k))
				}
				g.emit("icopy %d %s %s", s.sid, hx([]byte(nm)), hx(k))
			case x < 97:
				s := g.pickStore(true)
				if s == nil {
					return
				}
				g.emit("mjson %d %s", s.sid, hx([]byte(g.pickName(s, true))))
			default:
				s := g.pickStore(true)
				if s == nil {
					return
				}
				g.emit("fsize %d", s.sid)
			}
		}},
		{p.Forge, func() {
			s := g.pickStore(true)
			if s == nil || s.mem {
				return
			}
			nm := g.pickName(s, true)
			hn := hx([]byte(nm))
			g.emit("flush %d", s.sid)
			switch r.Intn(3) {
			case 0:
				k := g.key()
				g.emit("setforge %d %s %s %d", s.sid, hn, hx(k), g.prio(nm, k))
			default: // an ordinary flush to revert over
				k := g.key()
				g.emit("set %d %s %s %s %d", s.sid, hn, hx(k), hx(g.val()), g.prio(nm, k))
			}
			g.emit("flush %d", s.sid)
			for i := 0; i < 1+r.Intn(3); i++ {
				g.emit("revertspec %d", s.sid)
			}
			g.emit("dump %d", s.sid)
			g.emit("names %d", s.sid)
			// the names the generator believes in may be gone now
			for n := range s.names {
				delete(s.names, n)
			}
		}},
		{p.Chain, func() {
			// caller-chosen priorities that run with the key order give a treap that is a chain;
			// SetItem's documentation allows them
			s := g.pickStore(true)
			if s == nil || r.Intn(4) != 0 {
				return // deep chains are costly to replay: about one history in eight gets one
			}
			nm := g.pickName(s, true)
			hn := hx([]byte(nm))
			n := 66 + r.Intn(15)
			rising := r.Intn(2) == 0
			for i := 0; i < n; i++ {
				pr := 1000 + i
				if !rising {
					pr = 1000 + n - i
				}
				g.emit("set %d %s %s %s %d", s.sid, hn, hx([]byte(fmt.Sprintf("z%03d", i))), hx([]byte{byte('0' + i%10)}), pr)
			}
			g.emit("visit %d %s asc %s 0 -1", s.sid, hn, hx([]byte("z060")))
			// everything that walks to an end of the chain
			g.emit("min %d %s %d", s.sid, hn, r.Intn(2))
			g.emit("max %d %s %d", s.sid, hn, r.Intn(2))
			g.emit("len %d %s", s.sid, hn)
			if p.Blocks > 0 {
				g.emit("blocks %d %s %d %s", s.sid, hn, r.Intn(2), []string{"id", "rev", "rand"}[r.Intn(3)])
				g.emit("random %d %s", s.sid, hn)
			}
			if !s.mem || true {
				ns := &gstore{sid: g.nextSid, fid: g.nextFid, names: map[string]bool{}}
				g.nextSid++
				g.nextFid++
				for x := range s.names {
					ns.names[x] = true
				}
				fe := []int{-1, 1, 7, 100}[r.Intn(4)]
				if g.p.CopyOnto && r.Intn(3) == 0 {
				g.emit("appendcheck onto:%d:%d", s.sid, []int{0, 1, 2, 5}[r.Intn(4)]) // destination already holds a store
			}
			g.emit("copy %d %d %d %d", s.sid, ns.sid, ns.fid, fe)
				g.emit("dump %d", ns.sid)
				if fe > 0 {
					g.emit("opendump %d", ns.fid)
				}
				g.emit("close %d", ns.sid)
			}
		}},
		{p.Fill, func() {
			s := g.pickStore(true)
			if s == nil || s.mem {
				return
			}
			g.emit("fill %d %s %d", s.sid, hx([]byte(g.pickName(s, true))), 70+r.Intn(190))
		}},
		{p.SnapRead, func() {
			// a read THROUGH a snapshot that does not evict what it loads (GetItem / Min / Max)
			var ids []int
			for id, t := range g.stores {
				if t.ro {
					ids = append(ids, id)
				}
			}
			if len(ids) == 0 {
				return
			}
			sort.Ints(ids)
			t := g.stores[ids[r.Intn(len(ids))]]
			hn := hx([]byte(g.pickName(t, true)))
			switch r.Intn(5) {
			case 0:
				g.emit("min %d %s %d", t.sid, hn, r.Intn(2))
			case 1:
				g.emit("max %d %s %d", t.sid, hn, r.Intn(2))
			default:
				g.emit("geti %d %s %s %d", t.sid, hn, hx(g.key()), r.Intn(2))
			}
		}},
		{p.SnapRevert, func() {
			// FlushRevert THROUGH a snapshot: the snapshot goes back one flush, the file and the
			// original are untouched
			var ids []int
			for id, t := range g.stores {
				if t.ro && !t.mem {
					ids = append(ids, id)
				}
			}
			if len(ids) == 0 {
				return
			}
			sort.Ints(ids)
			id := ids[r.Intn(len(ids))]
			g.emit("revert %d", id)
			g.emit("names %d", id)
			g.emit("dump %d", id)
			g.stores[id].names = map[string]bool{}
		}},
		{p.Write, func() {
			s := g.pickStore(true)
			if s == nil || s.mem {
				return
			}
			g.emit("write %d %s", s.sid, hx([]byte(g.pickName(s, true))))
		}},
		{p.Dump, func() { g.emit("dump %d", g.pickStore(false).sid) }},
		{p.HeapCheck, func() { g.emit("heapcheck") }},
		{p.RefCheck, func() { g.emit("refcheck") }},
		{p.Churn, func() { g.emit("churn %d", 5+r.Intn(60)); g.emit("heapcheck") }},
		{p.NVisit, func() {
			s := g.pickStore(false)
			n := g.pickName(s, true)
			dir := []string{"asc", "desc"}[r.Intn(2)]
			tgt := []byte{}
			if dir == "desc" {
				tgt = []byte{0xff, 0xff}
			}
			if len(n) > 0 && n[0] == 'r' { // reversed comparator: swap the extreme targets
				if dir == "asc" {
					tgt = []byte{0xff, 0xff}
				} else {
					tgt = []byte{}
				}
			}
			// the nested operation: any simple operation of the main generator
			save := g.lines
			g.lines = nil
			for len(g.lines) == 0 {
				switch r.Intn(8) {
				case 0, 1, 2:
					ws := g.pickStore(true)
					if ws != nil {
						nn := g.pickName(ws, true)
						k := g.key()
						g.emit("set %d %s %s %s %d", ws.sid, hx([]byte(nn)), hx(k), hx(g.val()), g.prio(nn, k))
					}
				case 3, 4:
					ws := g.pickStore(true)
					if ws != nil {
						g.emit("del %d %s %s", ws.sid, hx([]byte(g.pickName(ws, true))), hx(g.key()))
					}
				case 5:
					rs := g.pickStore(false)
					if g.p.NoGet {
						g.emit("geti %d %s %s 1", rs.sid, hx([]byte(g.pickName(rs, true))), hx(g.key()))
						break
					}
					g.emit("get %d %s %s", rs.sid, hx([]byte(g.pickName(rs, true))), hx(g.key()))
				case 6:
					rs := g.pickStore(false)
					g.emit("min %d %s 1", rs.sid, hx([]byte(g.pickName(rs, true))))
				case 7:
					rs := g.pickStore(false)
					g.emit("totals %d %s", rs.sid, hx([]byte(g.pickName(rs, true))))
				}
			}
			nested := g.lines[0]
			g.lines = save
			g.emit("nvisit %d %s %s %s %d %d | %s", s.sid, hx([]byte(n)), dir, hx(tgt), r.Intn(2), r.Intn(4), nested)
		}},
		{p.Shape, func() {
			s := g.pickStore(false)
			g.emit("shape %d %s", s.sid, hx([]byte(g.pickName(s, true))))
		}},
		{p.Image, func() {
			s := g.pickStore(false)
			if !s.mem {
				g.emit("image %d", s.fid)
			}
		}},
	}
	total := 0
	for _, o := range ops {
		total += o.w
	}
	n := p.Ops/2 + r.Intn(p.Ops/2+1)
	for i := 0; i < n; i++ {
		x := r.Intn(total)
		for _, o := range ops {
			if x < o.w {
				if len(g.stores) > 0 {
					o.f()
				}
				break
			}
			x -= o.w
		}
	}
	// final full observation
	var ids []int
	for id := range g.stores {
		ids = append(ids, id)
	}
	sort.Ints(ids)
	for _, id := range ids {
		if p.NoFinalDump {
			// a dump is a visit, and a visit evicts (and releases) every item it leaves: the last
			// access to each item stays whatever the history made it
			break
		}
		g.emit("dump %d", id)
	}
	if p.KeyOnlyReads {
		g.lines = bracketKeyOnly(g.lines)
	}
	for f := 1; f < g.nextFid; f++ {
		for _, t := range p.EndExtra {
			g.emit(strings.ReplaceAll(t, "%F", fmt.Sprint(f)))
		}
	}
	if p.CloseAll {
		r.Shuffle(len(ids), func(i, j int) { ids[i], ids[j] = ids[j], ids[i] })
		for _, id := range ids {
			g.emit("close %d", id)
		}
		g.emit("refcheck")
		g.emit("refbalance")
	}
	return g.lines
}

func opKind(line string) string {
	f := strings.Fields(line)
	if len(f) == 0 {
		return ""
	}
	return f[0]
}

// bracketKeyOnly surrounds every key-only operation on a file-backed store with `rmark F` /
// `kreads F`, and every open with `rmark F` / `openreads F` (C19).
func bracketKeyOnly(lines []string) []string {
	sfile := map[string]string{}
	var out []string
	for _, l := range lines {
		f := strings.Fields(l)
		if len(f) == 0 {
			continue
		}
		switch f[0] {
		case "open":
			sfile[f[1]] = f[2]
			out = append(out, "rmark "+f[2], l, "openreads "+f[2])
			continue
		case "mem":
			delete(sfile, f[1])
		case "snap":
			if fid, ok := sfile[f[1]]; ok {
				sfile[f[2]] = fid
			}
		case "copy":
			sfile[f[2]] = f[3]
		}
		keyOnly := false
		switch f[0] {
		case "exist", "len", "set", "del":
			keyOnly = true
		case "geti":
			keyOnly = f[4] == "0"
		case "min", "max":
			keyOnly = f[3] == "0"
		case "visit":
			keyOnly = f[5] == "0"
		case "iter":
			keyOnly = f[5] == "0"
		case "blocks":
			keyOnly = f[3] == "0"
		}
		if len(f) < 2 {
			out = append(out, l)
			continue
		}
		if fid, ok := sfile[f[1]]; keyOnly && ok {
			out = append(out, "rmark "+fid, l, "kreads "+fid)
		} else {
			out = append(out, l)
		}
	}
	return out
}
