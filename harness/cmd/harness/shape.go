package main

import (
	"encoding/hex"
	"fmt"
	"sync"

	"github.com/cbehopkins/gkvlite"
)

type shapeNode struct {
	key   []byte
	prio  int32
	depth int
	nn    uint64
	nb    uint64
}

func collectShape(st *gkvlite.Store, c *gkvlite.Collection) ([]shapeNode, error) {
	var nodes []shapeNode
	min, err := c.MinItem(false)
	if err != nil {
		return nil, err
	}
	if min == nil {
		return nil, nil
	}
	defer st.ItemDecRef(c, min)
	err = c.VisitItemsAscendEx(min.Key, false, func(i *gkvlite.Item, depth uint64) bool {
		nodes = append(nodes, shapeNode{key: append([]byte(nil), i.Key...), prio: i.Priority, depth: int(depth)})
		return true
	})
	if err != nil {
		return nil, err
	}
	if err := gkvlite.VerifLoadAll(c); err != nil {
		return nil, err
	}
	idx := 0
	bad := ""
	gkvlite.VerifWalk(c, func(n gkvlite.VerifNodeInfo) {
		if idx < len(nodes) {
			if nodes[idx].depth != n.Depth {
				bad = fmt.Sprintf("depth-mismatch@%d:%d!=%d", idx, nodes[idx].depth, n.Depth)
			}
			nodes[idx].nn, nodes[idx].nb = n.NumNodes, n.NumBytes
		}
		idx++
	})
	if idx != len(nodes) {
		bad = fmt.Sprintf("walk-count:%d!=%d", idx, len(nodes))
	}
	if bad != "" {
		return nil, fmt.Errorf("%s", bad)
	}
	return nodes, nil
}

func renderShape(ns []shapeNode, d int) string {
	if len(ns) == 0 {
		return "."
	}
	ri := -1
	for i, n := range ns {
		if n.depth == d {
			ri = i
			break
		}
	}
	if ri < 0 {
		return "?"
	}
	n := ns[ri]
	return "(" + renderShape(ns[:ri], d+1) + " " + hex.EncodeToString(n.key) + ":" + fmt.Sprint(n.prio) + "/" +
		fmt.Sprint(n.nn) + "/" + fmt.Sprint(n.nb) + " " + renderShape(ns[ri+1:], d+1) + ")"
}

func shapeOf(st *gkvlite.Store, c *gkvlite.Collection) string {
	ns, err := collectShape(st, c)
	if err != nil {
		return errClass(err)
	}
	return renderShape(ns, 0)
}

// ---- item reference counting (C15) ----

type refCounter struct {
	mu       sync.Mutex
	cnt      map[*gkvlite.Item]int
	pool     map[*gkvlite.Item]bool // items handed out by ItemAlloc: the application's pool owns them
	poisoned int
	events   int
	negative []string
}

func newRefCounter() *refCounter {
	return &refCounter{cnt: map[*gkvlite.Item]int{}, pool: map[*gkvlite.Item]bool{}}
}

func (r *refCounter) alloc(i *gkvlite.Item) {
	r.mu.Lock()
	r.cnt[i] = 1
	r.pool[i] = true
	r.events++
	r.mu.Unlock()
}
func (r *refCounter) userItem(i *gkvlite.Item) {
	r.mu.Lock()
	if _, ok := r.cnt[i]; !ok {
		r.cnt[i] = 0
	}
	r.mu.Unlock()
}
func (r *refCounter) add(i *gkvlite.Item) {
	r.mu.Lock()
	r.cnt[i]++
	r.events++
	r.mu.Unlock()
}
func (r *refCounter) dec(i *gkvlite.Item) {
	r.mu.Lock()
	r.cnt[i]--
	r.events++
	if r.cnt[i] < 0 {
		r.negative = append(r.negative, fmt.Sprintf("key=%x count=%d", i.Key, r.cnt[i]))
	}
	if r.cnt[i] == 0 && r.pool[i] {
		// A recycling allocator (tools/slab is one) reuses the item and its buffers from here on.
		// Nobody may look at it any more (C15: whatever gkvlite still reaches or hands out has a
		// positive count), so scribbling over it is behaviourally neutral (C17).
		for k := range i.Key {
			i.Key[k] = 0xEE
		}
		for k := range i.Val {
			i.Val[k] = 0xEE
		}
		i.Priority = 0x6EEEEEEE
		r.poisoned++
	}
	r.mu.Unlock()
}
func (r *refCounter) handed(i *gkvlite.Item) {
	r.mu.Lock()
	if r.cnt[i] <= 0 {
		r.negative = append(r.negative, fmt.Sprintf("handed-with-count key=%x count=%d", i.Key, r.cnt[i]))
	}
	r.mu.Unlock()
}
func (r *refCounter) get(i *gkvlite.Item) int {
	r.mu.Lock()
	defer r.mu.Unlock()
	return r.cnt[i]
}
