package main

import (
	"bytes"
	"encoding/hex"
	"fmt"
	"io"
	"os"
	"math/rand"
	"sort"
	"strconv"
	"strings"
	"time"

	"github.com/cbehopkins/gkvlite"
	"gkvverif/memfile"
)

// World executes operation lines against the real package.
type World struct {
	files     map[int]*memfile.File
	stores    map[int]*gkvlite.Store
	sfile     map[int]int
	ro        map[int]bool
	rmark     map[int]int
	rewrite   string // set by an operation whose line must carry a value only the implementation knows (the priority Set drew)
	cfg       int    // callback configuration bits for stores opened from now on
	rc        *refCounter
	churn     []*gkvlite.Store
	dropped   int
	abandoned []*gkvlite.Store
	lastFired bool
	concYield func()
	dead      bool // a hang happened: the process state is no longer trustworthy
	opTimeo   time.Duration
	cevicts   int64 // number of `cevict` calls so far: seeds the package's random descent so that its choices can be told to the model
}

// reseed makes the package's own use of the global math/rand source (the random descent of
// EvictSomeItems, RandBm, Set's priorities) a function of the history alone, so that a history —
// in particular a fault history, whose file-call positions depend on those choices — replays
// exactly.  (go.mod says go 1.21: rand.Seed is effective.)
func reseed() { rand.Seed(20260923) }

func newWorld() *World {
	reseed()
	return &World{files: map[int]*memfile.File{}, stores: map[int]*gkvlite.Store{}, sfile: map[int]int{}, ro: map[int]bool{}, rmark: map[int]int{},
		opTimeo: 10 * time.Second}
}

// ---- tokens ----

func hx(b []byte) string {
	if b == nil {
		return "-"
	}
	return "h" + hex.EncodeToString(b)
}

// baBox is a ByteAble (the fifth kind of argument toBa accepts).
type baBox struct{ b []byte }

func (x baBox) ToBa() []byte { return x.b }

// anyArg parses the token of an "any supported type" argument: i:<int>  l:<int>,<int>,..  s:<hex>
// b:<hex>|b:-  B:<hex>
func anyArg(s string) (interface{}, bool) {
	if len(s) < 2 || s[1] != ':' {
		return nil, false
	}
	body := s[2:]
	switch s[0] {
	case 'i':
		v, err := strconv.Atoi(body)
		return v, err == nil
	case 'l':
		l := []int{}
		if body != "" {
			for _, f := range strings.Split(body, ",") {
				v, err := strconv.Atoi(f)
				if err != nil {
					return nil, false
				}
				l = append(l, v)
			}
		}
		return l, true
	case 's':
		b, err := hex.DecodeString(body)
		return string(b), err == nil
	case 'b':
		if body == "-" {
			return []byte(nil), true
		}
		b, err := hex.DecodeString(body)
		if b == nil {
			b = []byte{}
		}
		return b, err == nil
	case 'B':
		b, err := hex.DecodeString(body)
		if b == nil {
			b = []byte{}
		}
		return baBox{b}, err == nil
	}
	return nil, false
}

// anyBytes is what the package's toBa is expected to make of an argument (used only to read back
// the priority a convenience setter chose).
func anyBytes(x interface{}) []byte {
	switch v := x.(type) {
	case int:
		return []byte(strconv.Itoa(v))
	case []int:
		f := make([]string, len(v))
		for i, y := range v {
			f[i] = strconv.Itoa(y)
		}
		return []byte(strings.Join(f, ","))
	case string:
		return []byte(v)
	case []byte:
		return v
	case baBox:
		return v.b
	}
	return nil
}

func unhx(s string) ([]byte, bool) {
	if s == "-" {
		return nil, true
	}
	if !strings.HasPrefix(s, "h") {
		return nil, false
	}
	b, err := hex.DecodeString(s[1:])
	if err != nil {
		return nil, false
	}
	if b == nil {
		b = []byte{}
	}
	return b, true
}

func lowerASCII(b []byte) []byte {
	o := make([]byte, len(b))
	for i, c := range b {
		if c >= 'A' && c <= 'Z' {
			c += 32
		}
		o[i] = c
	}
	return o
}

func cmpRev(a, b []byte) int  { return bytes.Compare(b, a) }
func cmpFold(a, b []byte) int { return bytes.Compare(lowerASCII(a), lowerASCII(b)) }

// cmpOfName: the comparator of a collection is fixed by the first byte of its name.
func cmpOfName(name string) gkvlite.KeyCompare {
	if len(name) > 0 {
		switch name[0] {
		case 'r':
			return cmpRev
		case 'f':
			return cmpFold
		}
	}
	return bytes.Compare
}

func errClass(err error) string {
	// Which error a refused call returns is specified nowhere (and its wording even less): every
	// error is observed as "err", except the three the properties speak about - an injected I/O
	// fault (by identity), an unexpected end of file (by identity) and the documented "couldn't
	// find roots" of an open that finds no root record.  The model's answers err-ro / err-arg /
	// err-nofile / err-name are printed as "err" by the driver (lean/Main.lean).
	if err == nil {
		return "ok"
	}
	m := err.Error()
	switch {
	case err == memfile.ErrInjected || strings.Contains(m, "injected I/O error"):
		return "err-io"
	case err == io.EOF || err == io.ErrUnexpectedEOF:
		return "err-eof"
	case strings.Contains(m, "couldn't find roots"):
		return "noroots"
	}
	if os.Getenv("VERIF_ERRTEXT") != "" {
		fmt.Fprintln(os.Stderr, "ERRTEXT:", m)
	}
	return "err"
}

func showItem(i *gkvlite.Item, wv bool) string {
	if i == nil {
		return "-"
	}
	s := hx(i.Key) + ":" + strconv.Itoa(int(i.Priority))
	if wv {
		s += ":" + hx(fullVal(i))
	}
	return s
}

// ---- callback configurations (C17) ----

const (
	cbItemAlloc = 1 << iota
	cbRefs
	cbValLength
	cbValWrite
	cbValRead
	cbBeforeWrite
	cbAfterRead
	cbKeyCompare // always installed on reopen when any non-default comparator name is used
	cbChunked    // values live in memory in chunks: Val is the first chunk, the rest hangs off Transient
	cbTransform  // BeforeItemWrite encodes the value (XOR), AfterItemRead decodes it: an inverse pair
	cbPartialCmp // the load-time comparator callback answers only for names starting with 'r' (nil otherwise); the application installs the rest with SetCollection after every open
	cbNoKeyCmp   // NO KeyCompareForCollection callback: after every open the application installs the comparators itself with SetCollection on the existing names (the documented pattern)
)

func xorBytes(b []byte) []byte {
	if b == nil {
		return nil
	}
	o := make([]byte, len(b))
	for i, x := range b {
		o[i] = x ^ 0xA5
	}
	return o
}

// chunkTail is what a chunked value keeps in Item.Transient: everything after the first chunk.
type chunkTail struct{ rest []byte }

const firstChunk = 4

// fullVal is the value of an item as the application sees it.
func fullVal(i *gkvlite.Item) []byte {
	if ct, ok := i.Transient.(*chunkTail); ok && ct != nil {
		return append(append([]byte{}, i.Val...), ct.rest...)
	}
	return i.Val
}

func (w *World) callbacks() gkvlite.StoreCallbacks {
	cb := gkvlite.StoreCallbacks{}
	switch {
	case w.cfg&cbPartialCmp != 0:
		cb.KeyCompareForCollection = func(name string) gkvlite.KeyCompare {
			if len(name) > 0 && name[0] == 'r' {
				return cmpOfName(name)
			}
			return nil
		}
	case w.cfg&cbNoKeyCmp == 0:
		cb.KeyCompareForCollection = func(name string) gkvlite.KeyCompare { return cmpOfName(name) }
	}
	if w.cfg&cbItemAlloc != 0 {
		cb.ItemAlloc = func(c *gkvlite.Collection, keyLength uint32) *gkvlite.Item {
			it := &gkvlite.Item{Key: make([]byte, keyLength, keyLength+3)}
			if w.rc != nil {
				w.rc.alloc(it)
			}
			return it
		}
	}
	if w.cfg&cbRefs != 0 {
		cb.ItemAddRef = func(c *gkvlite.Collection, i *gkvlite.Item) {
			if w.rc != nil {
				w.rc.add(i)
			}
		}
		cb.ItemDecRef = func(c *gkvlite.Collection, i *gkvlite.Item) {
			if w.rc != nil {
				w.rc.dec(i)
			}
		}
	}
	if w.cfg&cbValLength != 0 {
		cb.ItemValLength = func(c *gkvlite.Collection, i *gkvlite.Item) int { return len(i.Val) }
	}
	if w.cfg&cbValWrite != 0 {
		cb.ItemValWrite = func(c *gkvlite.Collection, i *gkvlite.Item, wr io.WriterAt, offset int64) error {
			// same bytes, in chunks of 3
			for p := 0; p < len(i.Val); p += 3 {
				e := p + 3
				if e > len(i.Val) {
					e = len(i.Val)
				}
				if _, err := wr.WriteAt(i.Val[p:e], offset+int64(p)); err != nil {
					return err
				}
			}
			return nil
		}
	}
	if w.cfg&cbValRead != 0 {
		cb.ItemValRead = func(c *gkvlite.Collection, i *gkvlite.Item, r io.ReaderAt, offset int64, valLength uint32) error {
			i.Val = make([]byte, valLength)
			for p := 0; p < int(valLength); p += 5 {
				e := p + 5
				if e > int(valLength) {
					e = int(valLength)
				}
				if _, err := r.ReadAt(i.Val[p:e], offset+int64(p)); err != nil {
					return err
				}
			}
			return nil
		}
	}
	if w.cfg&cbChunked != 0 {
		cb.ItemValLength = func(c *gkvlite.Collection, i *gkvlite.Item) int {
			if ct, ok := i.Transient.(*chunkTail); ok && ct != nil {
				return len(i.Val) + len(ct.rest)
			}
			return len(i.Val)
		}
		cb.ItemValWrite = func(c *gkvlite.Collection, i *gkvlite.Item, wr io.WriterAt, offset int64) error {
			if _, err := wr.WriteAt(i.Val, offset); err != nil {
				return err
			}
			if ct, ok := i.Transient.(*chunkTail); ok && ct != nil {
				for p := 0; p < len(ct.rest); p += 7 {
					e := p + 7
					if e > len(ct.rest) {
						e = len(ct.rest)
					}
					if _, err := wr.WriteAt(ct.rest[p:e], offset+int64(len(i.Val)+p)); err != nil {
						return err
					}
				}
			}
			return nil
		}
		cb.ItemValRead = func(c *gkvlite.Collection, i *gkvlite.Item, r io.ReaderAt, offset int64, valLength uint32) error {
			n := int(valLength)
			if n <= firstChunk {
				i.Val = make([]byte, n)
				_, err := r.ReadAt(i.Val, offset)
				return err
			}
			i.Val = make([]byte, firstChunk)
			if _, err := r.ReadAt(i.Val, offset); err != nil {
				return err
			}
			ct := &chunkTail{rest: make([]byte, n-firstChunk)}
			if _, err := r.ReadAt(ct.rest, offset+firstChunk); err != nil {
				return err
			}
			i.Transient = ct
			return nil
		}
	}
	if w.cfg&cbTransform != 0 {
		// the intended use of the two hooks: what is written is an encoded COPY (the cached item
		// is never touched), what is read back is decoded before anybody sees it
		cb.BeforeItemWrite = func(c *gkvlite.Collection, i *gkvlite.Item) (*gkvlite.Item, error) {
			return &gkvlite.Item{Key: i.Key, Val: xorBytes(i.Val), Priority: i.Priority, Transient: i.Transient}, nil
		}
		cb.AfterItemRead = func(c *gkvlite.Collection, i *gkvlite.Item) (*gkvlite.Item, error) {
			i.Val = xorBytes(i.Val)
			return i, nil
		}
		return cb
	}
	if w.cfg&cbBeforeWrite != 0 {
		cb.BeforeItemWrite = func(c *gkvlite.Collection, i *gkvlite.Item) (*gkvlite.Item, error) { return i, nil }
	}
	if w.cfg&cbAfterRead != 0 {
		cb.AfterItemRead = func(c *gkvlite.Collection, i *gkvlite.Item) (*gkvlite.Item, error) { return i, nil }
	}
	return cb
}

// ---- execution ----

// Exec runs one operation line with panic recovery and a watchdog.
func (w *World) Exec(line string) (obs string) {
	if w.dead {
		return "dead"
	}
	done := make(chan string, 1)
	go func() {
		defer func() {
			if r := recover(); r != nil {
				msg := fmt.Sprint(r)
				if len(msg) > 60 {
					msg = msg[:60]
				}
				done <- "panic:" + strings.ReplaceAll(msg, " ", "_")
			}
		}()
		done <- w.exec(strings.Fields(line))
	}()
	select {
	case o := <-done:
		return o
	case <-time.After(w.opTimeo):
		w.dead = true
		return "hang"
	}
}

func (w *World) coll(s int, name []byte) (*gkvlite.Store, *gkvlite.Collection, string) {
	st := w.stores[s]
	if st == nil {
		return nil, nil, "nostore"
	}
	c := st.GetCollection(string(name))
	if c == nil {
		return st, nil, "nocoll"
	}
	return st, c, ""
}

func renderReads(log []memfile.Event) string {
	var rds []string
	for _, e := range log {
		switch e.Kind {
		case memfile.Read:
			rds = append(rds, fmt.Sprintf("r%d+%d", e.Off, e.Len))
		case memfile.Stat:
			rds = append(rds, "s")
		case memfile.Write:
			rds = append(rds, fmt.Sprintf("w%d+%d", e.Off, e.Len))
		case memfile.Trunc:
			rds = append(rds, fmt.Sprintf("t%d", e.Off))
		}
	}
	return strings.Join(rds, ",")
}

func atoi(s string) int { n, _ := strconv.Atoi(s); return n }

func (w *World) setTag(tag string) {
	for _, f := range w.files {
		f.Tag = tag
	}
}

func (w *World) exec(t []string) string {
	if len(t) == 0 {
		return ""
	}
	w.setTag(t[0])
	switch t[0] {
	case "cx":
		// `cx stress seed=S ms=M readers=R`: re-runs one history of the real-goroutine stress stream
		if len(t) == 5 && t[1] == "stress" {
			var sd int64
			var ms, rd int
			fmt.Sscanf(t[2], "seed=%d", &sd)
			fmt.Sscanf(t[3], "ms=%d", &ms)
			fmt.Sscanf(t[4], "readers=%d", &rd)
			return stressOne(sd, time.Duration(ms)*time.Millisecond, rd)
		}
		return "bad-op"
	case "reset":
		reseed()
		*w = *newWorld()
		rand.Seed(20260923) // EvictSomeItems / RandBm draw from the global source: keep runs repeatable
		return "ok"
	case "cfg":
		w.cfg = atoi(t[1])
		if w.cfg&cbRefs != 0 {
			w.rc = newRefCounter()
		}
		return "ok"
	case "failop":
		return w.exec(t[1:])
	case "refcheck":
		return w.refCheck()
	case "refbalance":
		return w.refBalance()
	case "mem":
		// a memory-only store is one opened on a nil file: the untyped nil, or a nil pointer of a
		// file type (`var f *os.File; NewStore(f)` - what NewStoreEx's reflect test is for).  Both
		// spellings are used (which one: by store number and callback configuration, so that a
		// replay repeats it).
		var nofile gkvlite.StoreFile
		if (atoi(t[1])+w.cfg)%2 == 1 {
			nofile = (*memfile.File)(nil)
		}
		st, err := gkvlite.NewStoreEx(nofile, w.callbacks())
		if err != nil {
			return errClass(err)
		}
		w.stores[atoi(t[1])] = st
		return "ok"
	case "open":
		s, f := atoi(t[1]), atoi(t[2])
		mf := w.files[f]
		if mf == nil {
			mf = memfile.New()
			w.files[f] = mf
		}
		mf.Tag = "open"
		st, err := gkvlite.NewStoreEx(mf, w.callbacks())
		if err != nil {
			return errClass(err)
		}
		w.stores[s] = st
		w.sfile[s] = f
		return "ok"
	case "close":
		s := atoi(t[1])
		if st := w.stores[s]; st != nil {
			st.Close()
			delete(w.stores, s)
			return "ok"
		}
		return "nostore"
	case "drop": // abandon a store without closing it (a crashed process)
		if st, ok := w.stores[atoi(t[1])]; ok {
			w.dropped++
			w.abandoned = append(w.abandoned, st) // never closed: its handles keep their references
		}
		delete(w.stores, atoi(t[1]))
		return "ok"
	case "setcoll":
		st := w.stores[atoi(t[1])]
		if st == nil {
			return "nostore"
		}
		n, _ := unhx(t[2])
		st.SetCollection(string(n), cmpOfName(string(n)))
		return "ok"
	case "rmcoll":
		st := w.stores[atoi(t[1])]
		if st == nil {
			return "nostore"
		}
		n, _ := unhx(t[2])
		st.RemoveCollection(string(n))
		return "ok"
	case "names":
		st := w.stores[atoi(t[1])]
		if st == nil {
			return "nostore"
		}
		var out []string
		for _, n := range st.GetCollectionNames() {
			out = append(out, hx([]byte(n)))
		}
		return strings.Join(out, ",")
	case "set":
		n, _ := unhx(t[2])
		_, c, e := w.coll(atoi(t[1]), n)
		if e != "" {
			return e
		}
		k, _ := unhx(t[3])
		v, _ := unhx(t[4])
		p, _ := strconv.ParseInt(t[5], 10, 64)
		it := &gkvlite.Item{Key: k, Val: v, Priority: int32(p)}
		if w.cfg&cbChunked != 0 && len(v) > firstChunk {
			it.Val, it.Transient = v[:firstChunk:firstChunk], &chunkTail{rest: v[firstChunk:]}
		}
		if w.rc != nil {
			w.rc.userItem(it)
		}
		return errClass(c.SetItem(it))
	case "seta", "setr":
		// the convenience setters draw the priority from math/rand's global source: seed it so that
		// the next value is the one the operation line (and so the model) carries
		n, _ := unhx(t[2])
		_, c, e := w.coll(atoi(t[1]), n)
		if e != "" {
			return e
		}
		seed, _ := strconv.ParseInt(t[5], 10, 64)
		rand.Seed(seed)
		var kb []byte
		var err error
		if t[0] == "setr" {
			k, _ := unhx(t[3])
			v, _ := unhx(t[4])
			kb, err = k, c.Set(k, v)
		} else {
			k, ok1 := anyArg(t[3])
			v, ok2 := anyArg(t[4])
			if !ok1 || !ok2 {
				return "bad-op"
			}
			kb, err = anyBytes(k), c.SetAny(k, v)
		}
		if err == nil && len(kb) > 0 {
			// which priority the call chose is not specified anywhere: read it back and put it
			// into the operation line, so that the model builds the tree with that priority
			if it, e := c.GetItem(kb, false); e == nil && it != nil && strconv.Itoa(int(it.Priority)) != t[6] {
				t[6] = strconv.Itoa(int(it.Priority))
				w.rewrite = strings.Join(t, " ")
			}
		}
		return errClass(err)
	case "geta":
		n, _ := unhx(t[2])
		_, c, e := w.coll(atoi(t[1]), n)
		if e != "" {
			return e
		}
		k, ok := anyArg(t[3])
		if !ok {
			return "bad-op"
		}
		v, err := c.GetAny(k)
		if err != nil {
			return errClass(err)
		}
		return hx(v)
	case "exa":
		n, _ := unhx(t[2])
		_, c, e := w.coll(atoi(t[1]), n)
		if e != "" {
			return e
		}
		k, ok := anyArg(t[3])
		if !ok {
			return "bad-op"
		}
		return strconv.FormatBool(c.ExistAny(k))
	case "dela":
		n, _ := unhx(t[2])
		_, c, e := w.coll(atoi(t[1]), n)
		if e != "" {
			return e
		}
		k, ok := anyArg(t[3])
		if !ok {
			return "bad-op"
		}
		d, err := c.DeleteAny(k)
		if err != nil {
			return errClass(err)
		}
		return strconv.FormatBool(d)
	case "name":
		n, _ := unhx(t[2])
		_, c, e := w.coll(atoi(t[1]), n)
		if e != "" {
			return e
		}
		return hx([]byte(c.Name()))
	case "fsize":
		st := w.stores[atoi(t[1])]
		if st == nil {
			return "nostore"
		}
		m := map[string]uint64{}
		st.Stats(m)
		return strconv.FormatUint(m["fileSize"], 10)
	case "del":
		n, _ := unhx(t[2])
		_, c, e := w.coll(atoi(t[1]), n)
		if e != "" {
			return e
		}
		k, _ := unhx(t[3])
		d, err := c.Delete(k)
		if err != nil {
			return errClass(err)
		}
		return strconv.FormatBool(d)
	case "get":
		n, _ := unhx(t[2])
		_, c, e := w.coll(atoi(t[1]), n)
		if e != "" {
			return e
		}
		k, _ := unhx(t[3])
		v, err := c.Get(k)
		if err != nil {
			return errClass(err)
		}
		return hx(v)
	case "geti":
		n, _ := unhx(t[2])
		st, c, e := w.coll(atoi(t[1]), n)
		if e != "" {
			return e
		}
		k, _ := unhx(t[3])
		wv := t[4] == "1"
		i, err := c.GetItem(k, wv)
		if err != nil {
			return errClass(err)
		}
		o := showItem(i, wv)
		if i != nil {
			if w.rc != nil {
				w.rc.handed(i)
			}
			st.ItemDecRef(c, i)
		}
		return o
	case "icopy":
		// GetItem(withValue) followed by Item.Copy(): the copy shows what the original shows
		n, _ := unhx(t[2])
		st, c, e := w.coll(atoi(t[1]), n)
		if e != "" {
			return e
		}
		k, _ := unhx(t[3])
		i, err := c.GetItem(k, true)
		if err != nil {
			return errClass(err)
		}
		if i == nil {
			return showItem(nil, true)
		}
		cp := i.Copy()
		st.ItemDecRef(c, i)
		return showItem(cp, true)
	case "mjson":
		// Collection.MarshalJSON(): the persisted location of the root node, zeros while unwritten
		n, _ := unhx(t[2])
		_, c, e := w.coll(atoi(t[1]), n)
		if e != "" {
			return e
		}
		b, err := c.MarshalJSON()
		if err != nil {
			return errClass(err)
		}
		return string(b)
	case "exist":
		n, _ := unhx(t[2])
		_, c, e := w.coll(atoi(t[1]), n)
		if e != "" {
			return e
		}
		k, _ := unhx(t[3])
		return strconv.FormatBool(c.Exist(k))
	case "min", "max":
		n, _ := unhx(t[2])
		st, c, e := w.coll(atoi(t[1]), n)
		if e != "" {
			return e
		}
		wv := t[3] == "1"
		var i *gkvlite.Item
		var err error
		if t[0] == "min" {
			i, err = c.MinItem(wv)
		} else {
			i, err = c.MaxItem(wv)
		}
		if err != nil {
			return errClass(err)
		}
		o := showItem(i, wv)
		if i != nil {
			if w.rc != nil {
				w.rc.handed(i)
			}
			st.ItemDecRef(c, i)
		}
		return o
	case "totals":
		n, _ := unhx(t[2])
		_, c, e := w.coll(atoi(t[1]), n)
		if e != "" {
			return e
		}
		a, b, err := c.GetTotals()
		if err != nil {
			return errClass(err)
		}
		return fmt.Sprintf("%d,%d", a, b)
	case "len":
		n, _ := unhx(t[2])
		_, c, e := w.coll(atoi(t[1]), n)
		if e != "" {
			return e
		}
		l, err := c.Len()
		if err != nil {
			return errClass(err)
		}
		return strconv.FormatInt(l, 10)
	case "blocks", "random":
		n, _ := unhx(t[2])
		_, c, e := w.coll(atoi(t[1]), n)
		if e != "" {
			return e
		}
		var keys []string
		v := func(i *gkvlite.Item, depth uint64) bool {
			keys = append(keys, hex.EncodeToString(i.Key))
			return true
		}
		var err error
		if t[0] == "random" {
			err = c.VisitItemsRandom(v)
		} else {
			var bm gkvlite.BlockMangler
			switch {
			case t[4] == "rev":
				bm = func(b [][]byte) [][]byte {
					for i, j := 0, len(b)-1; i < j; i, j = i+1, j-1 {
						b[i], b[j] = b[j], b[i]
					}
					return b
				}
			case t[4] == "rand":
				bm = gkvlite.RandBm
			}
			err = c.VisitItemsAscendBlockEx(t[3] == "1", bm, v)
		}
		if err != nil {
			if strings.Contains(err.Error(), "impossible block sizes") {
				return "err-blocks"
			}
			return errClass(err)
		}
		sort.Strings(keys)
		return fmt.Sprintf("%d:%d", len(keys), fnv([]byte(strings.Join(keys, ","))))
	case "fill":
		n, _ := unhx(t[2])
		_, c, e := w.coll(atoi(t[1]), n)
		if e != "" {
			return e
		}
		cnt := atoi(t[3])
		for i := 0; i < cnt; i++ {
			it := &gkvlite.Item{Key: []byte(fmt.Sprintf("k%06d", i)), Val: []byte(strconv.Itoa(i)),
				Priority: int32((uint64(i)*2654435761 + 12345) % 2147483648)}
			if err := c.SetItem(it); err != nil {
				return errClass(err)
			}
		}
		return "ok"
	case "rmfile":
		delete(w.files, atoi(t[1]))
		return "ok"
	case "heapcheck":
		return w.heapCheck()
	case "churn":
		n := atoi(t[1])
		st, _ := gkvlite.NewStore(nil)
		c := st.SetCollection("churn", nil)
		for i := 0; i < n; i++ {
			c.SetItem(&gkvlite.Item{Key: []byte(fmt.Sprintf("c%05d", i)), Val: []byte("CHURN-CHURN"), Priority: int32(i * 7919 % 1000)})
		}
		for i := 0; i < n; i += 2 {
			c.Delete([]byte(fmt.Sprintf("c%05d", i)))
		}
		w.churn = append(w.churn, st) // keep the churn store open: its nodes are live now
		return "ok"
	case "nvisit":
		n, _ := unhx(t[2])
		_, c, e := w.coll(atoi(t[1]), n)
		if e != "" {
			return e
		}
		tgt, _ := unhx(t[4])
		wv := t[5] == "1"
		pos := atoi(t[6])
		nested := t[8:]
		nobs := "none"
		var out []string
		cnt := 0
		v := func(i *gkvlite.Item, depth uint64) bool {
			s := hx(i.Key) + ":" + strconv.Itoa(int(i.Priority)) + ":" + strconv.FormatUint(depth, 10)
			if wv {
				s += ":" + hx(fullVal(i))
			}
			out = append(out, s)
			if cnt == pos {
				nobs = w.exec(nested)
			}
			cnt++
			return true
		}
		var err error
		if t[3] == "asc" {
			err = c.VisitItemsAscendEx(tgt, wv, v)
		} else {
			err = c.VisitItemsDescendEx(tgt, wv, v)
		}
		if err != nil {
			return errClass(err)
		}
		return strings.Join(out, ",") + "|" + nobs
	case "opendump":
		mf := w.files[atoi(t[1])]
		var img []byte
		if mf != nil {
			img = mf.Bytes()
		}
		return openDigest(w, img)
	case "evict":
		n, _ := unhx(t[2])
		_, c, e := w.coll(atoi(t[1]), n)
		if e != "" {
			return e
		}
		k := 1
		if len(t) > 3 {
			k = atoi(t[3])
		}
		for i := 0; i < k; i++ {
			c.EvictSomeItems()
		}
		return "ok"
	case "flush":
		st := w.stores[atoi(t[1])]
		if st == nil {
			return "nostore"
		}
		return errClass(st.Flush())
	case "write":
		n, _ := unhx(t[2])
		_, c, e := w.coll(atoi(t[1]), n)
		if e != "" {
			return e
		}
		return errClass(c.Write())
	case "snap":
		st := w.stores[atoi(t[1])]
		if st == nil {
			return "nostore"
		}
		w.stores[atoi(t[2])] = st.Snapshot()
		w.ro[atoi(t[2])] = true
		w.sfile[atoi(t[2])] = w.sfile[atoi(t[1])]
		return "ok"
	case "setforge":
		// setforge S N K P: the value is a complete root record (one empty collection "forged")
		// whose trailer names the offset the value will be written at, provided this item is the
		// only dirty one at the next Flush.  The line is rewritten into the plain `set` it amounts to.
		n, _ := unhx(t[2])
		st, c, e := w.coll(atoi(t[1]), n)
		if e != "" {
			return e
		}
		k, _ := unhx(t[3])
		m := map[string]uint64{}
		st.Stats(m)
		at := int64(m["fileSize"]) + 16 + int64(len(k))
		v := framedRecord(at, []byte(`{"forged":{"o":0,"l":0}}`))
		p, _ := strconv.ParseInt(t[4], 10, 64)
		w.rewrite = fmt.Sprintf("set %s %s %s %s %s", t[1], t[2], t[3], hx(v), t[4])
		return errClass(c.SetItem(&gkvlite.Item{Key: k, Val: v, Priority: int32(p)}))
	case "revertspec":
		// FlushRevert, observed as the contents the store shows afterwards (the model side answers
		// from the specification: the state of the flush before the most recent one)
		st := w.stores[atoi(t[1])]
		if st == nil {
			return "nostore"
		}
		if err := st.FlushRevert(); err != nil {
			return errClass(err)
		}
		return "ok " + dumpStore(st)
	case "revert":
		st := w.stores[atoi(t[1])]
		if st == nil {
			return "nostore"
		}
		return errClass(st.FlushRevert())
	case "copy":
		st := w.stores[atoi(t[1])]
		if st == nil {
			return "nostore"
		}
		mf := w.files[atoi(t[3])]
		if mf == nil || len(mf.Data) > 0 {
			mf = memfile.New()
		}
		mf.Tag = "copydst"
		fe := atoi(t[4])
		dst, err := st.CopyTo(mf, fe)
		if err != nil {
			return errClass(err)
		}
		w.files[atoi(t[3])] = mf
		w.stores[atoi(t[2])] = dst
		w.sfile[atoi(t[2])] = atoi(t[3])
		return "ok"
	case "visit":
		n, _ := unhx(t[2])
		_, c, e := w.coll(atoi(t[1]), n)
		if e != "" {
			return e
		}
		tgt, _ := unhx(t[4])
		wv := t[5] == "1"
		stop := atoi(t[6])
		var out []string
		cnt := 0
		v := func(i *gkvlite.Item, depth uint64) bool {
			s := hx(i.Key) + ":" + strconv.Itoa(int(i.Priority)) + ":" + strconv.FormatUint(depth, 10)
			if wv {
				s += ":" + hx(fullVal(i))
			}
			out = append(out, s)
			cnt++
			if w.concYield != nil {
				w.concYield() // a visitor callback is a scheduling point
			}
			return stop < 0 || cnt <= stop
		}
		var err error
		if t[3] == "asc" {
			err = c.VisitItemsAscendEx(tgt, wv, v)
		} else {
			err = c.VisitItemsDescendEx(tgt, wv, v)
		}
		if err != nil {
			return errClass(err)
		}
		return strings.Join(out, ",")
	case "dump":
		st := w.stores[atoi(t[1])]
		if st == nil {
			return "nostore"
		}
		return dumpStore(st)
	case "shape":
		n, _ := unhx(t[2])
		_, c, e := w.coll(atoi(t[1]), n)
		if e != "" {
			return e
		}
		return shapeOf(w.stores[atoi(t[1])], c)
	case "appendcheck":
		if strings.HasPrefix(t[1], "onto:") {
			// `appendcheck onto:<store>:<flushEvery>` (the model answers every appendcheck with ok)
			f := strings.Split(t[1], ":")
			if len(f) != 3 {
				return "bad-op"
			}
			return w.copyOnto(atoi(f[1]), atoi(f[2]))
		}
		return w.appendCheck(atoi(t[1]))
	case "cstate", "cstatein":
		// the cached view of a collection (Model L); the model gets it as input (`cstatein`)
		n, _ := unhx(t[2])
		_, c, e := w.coll(atoi(t[1]), n)
		if e != "" {
			return e
		}
		w.rewrite = fmt.Sprintf("cstatein %s %s %s", t[1], t[2], gkvlite.VerifCacheState(c))
		return "ok"
	case "cget", "cmin", "cmax", "cevict", "cvisit":
		// GetItem / MinItem / MaxItem / EvictSomeItems with everything Model L predicts observed:
		// the answer (a value is shown whenever the returned item carries one), the file reads in
		// order, and the cached view afterwards
		n, _ := unhx(t[2])
		st, c, e := w.coll(atoi(t[1]), n)
		if e != "" {
			return e
		}
		fid, ok := w.sfile[atoi(t[1])]
		mf := w.files[fid]
		if !ok || mf == nil {
			return "err-nofile"
		}
		mark := len(mf.Log)
		var it *gkvlite.Item
		var err error
		switch t[0] {
		case "cget":
			k, _ := unhx(t[3])
			it, err = c.GetItem(k, t[4] == "1")
		case "cmin":
			it, err = c.MinItem(t[3] == "1")
		case "cmax":
			it, err = c.MaxItem(t[3] == "1")
		case "cvisit":
			// cvisit S N asc|desc T W STOP: the Ex visitor, to the end (STOP = 0) or saying stop at the
			// STOP-th item; what it was handed, with depths
			tgt, _ := unhx(t[4])
			stop := 0
			if len(t) > 6 {
				stop = atoi(t[6])
			}
			var seen []string
			vis := func(i *gkvlite.Item, depth uint64) bool {
				v := "-"
				if i.Val != nil {
					v = "h" + hex.EncodeToString(i.Val)
				}
				seen = append(seen, hex.EncodeToString(i.Key)+":"+strconv.Itoa(int(i.Priority))+":"+v+"@"+strconv.FormatUint(depth, 10))
				return stop == 0 || len(seen) < stop
			}
			if t[3] == "asc" {
				err = c.VisitItemsAscendEx(tgt, t[5] == "1", vis)
			} else {
				err = c.VisitItemsDescendEx(tgt, t[5] == "1", vis)
			}
			if err != nil {
				return errClass(err)
			}
			return strings.Join(seen, ",") + " | " + renderReads(mf.Log[mark:]) + " | " + gkvlite.VerifCacheState(c)
		case "cevict":
			seed := 7000003 + w.cevicts
			w.cevicts++
			rand.Seed(seed)
			bits := make([]byte, 128)
			for i := range bits {
				bits[i] = '0' + byte(rand.Int()&1)
			}
			rand.Seed(seed)
			c.EvictSomeItems()
			w.rewrite = fmt.Sprintf("cevict %s %s %s", t[1], t[2], bits)
		}
		if err != nil {
			return errClass(err)
		}
		found := "nil"
		if it != nil {
			v := "-"
			if it.Val != nil {
				v = "h" + hex.EncodeToString(it.Val)
			}
			found = hex.EncodeToString(it.Key) + ":" + strconv.Itoa(int(it.Priority)) + ":" + v
			if w.rc != nil {
				w.rc.handed(it)
			}
			st.ItemDecRef(c, it)
		}
		return found + " | " + renderReads(mf.Log[mark:]) + " | " + gkvlite.VerifCacheState(c)
	case "rmark": // forget the reads made so far
		if mf := w.files[atoi(t[1])]; mf != nil {
			w.rmark[atoi(t[1])] = len(mf.Log)
		}
		return "ok"
	case "kreads", "openreads": // the file reads made since the last mark
		mf := w.files[atoi(t[1])]
		if mf == nil {
			return ""
		}
		var out []string
		for _, e := range mf.Log[w.rmark[atoi(t[1])]:] {
			switch e.Kind {
			case memfile.Read:
				out = append(out, fmt.Sprintf("r%d+%d", e.Off, e.Len))
			case memfile.Stat:
				out = append(out, "s")
			case memfile.Write:
				out = append(out, fmt.Sprintf("w%d+%d", e.Off, e.Len))
			case memfile.Trunc:
				out = append(out, fmt.Sprintf("t%d", e.Off))
			}
		}
		w.rmark[atoi(t[1])] = len(mf.Log)
		return strings.Join(out, ",")
	case "crashj": // crashj F K C JUNKHEX: crash image (K,C) of F with junk appended
		mf := w.files[atoi(t[1])]
		var img []byte
		if mf != nil {
			img = memfile.CrashImage(mf.Mutations(), atoi(t[2]), atoi(t[3]))
		}
		j, _ := hex.DecodeString(t[4])
		return openDigest(w, append(append([]byte(nil), img...), j...))
	case "crashopen": // crashopen F K C F2 S: a new file F2 holding crash image (K,C) of F, opened as S
		mf := w.files[atoi(t[1])]
		var img []byte
		if mf != nil {
			img = memfile.CrashImage(mf.Mutations(), atoi(t[2]), atoi(t[3]))
		}
		nf := memfile.New()
		if len(img) > 0 {
			nf.WriteAt(img, 0)
		}
		w.files[atoi(t[4])] = nf
		st, err := gkvlite.NewStoreEx(nf, w.callbacks())
		if err != nil {
			return errClass(err)
		}
		w.stores[atoi(t[5])] = st
		w.sfile[atoi(t[5])] = atoi(t[4])
		return "ok"
	case "setroot": // setroot S N K P MODE: the value is the store file's last root record, altered
		n, _ := unhx(t[2])
		_, c, e := w.coll(atoi(t[1]), n)
		if e != "" {
			return e
		}
		k, _ := unhx(t[3])
		p, _ := strconv.ParseInt(t[4], 10, 64)
		val := []byte("no-root-yet")
		if mf := w.files[w.sfile[atoi(t[1])]]; mf != nil {
			if r := lastRootRecord(mf.Bytes()); r != nil {
				val = alterRoot(r, atoi(t[5]))
			}
		}
		return errClass(c.SetItem(&gkvlite.Item{Key: k, Val: val, Priority: int32(p)}))
	case "iter":
		return w.iterOp(t)
	case "image":
		mf := w.files[atoi(t[1])]
		if mf == nil {
			return "0:" + strconv.FormatUint(fnv(nil), 10)
		}
		b := mf.Bytes()
		return fmt.Sprintf("%d:%d", len(b), fnv(b))
	case "imagehex":
		mf := w.files[atoi(t[1])]
		if mf == nil {
			return ""
		}
		return hex.EncodeToString(mf.Bytes())
	case "wlog":
		mf := w.files[atoi(t[1])]
		if mf == nil {
			return ""
		}
		var out []string
		for _, e := range mf.Mutations() {
			if e.Kind == memfile.Write {
				out = append(out, fmt.Sprintf("w%d+%d", e.Off, e.Len))
			} else {
				out = append(out, fmt.Sprintf("t%d", e.Off))
			}
		}
		return strings.Join(out, ",")
	case "crash":
		mf := w.files[atoi(t[1])]
		var img []byte
		if mf != nil {
			img = memfile.CrashImage(mf.Mutations(), atoi(t[2]), atoi(t[3]))
		}
		return openDigest(w, img)
	case "fault":
		mf := w.files[atoi(t[1])]
		if mf == nil {
			mf = memfile.New()
			w.files[atoi(t[1])] = mf
		}
		mf.Arm(atoi(t[2]), atoi(t[3]))
		return "ok"
	case "unfault":
		mf := w.files[atoi(t[1])]
		if mf == nil {
			return "ok"
		}
		w.lastFired = mf.Fired
		mf.Disarm()
		return "ok"
	}
	return "bad-op"
}

func fnv(b []byte) uint64 {
	h := uint64(14695981039346656037)
	for _, x := range b {
		h ^= uint64(x)
		h *= 1099511628211
	}
	return h
}

func dumpColl(st *gkvlite.Store, c *gkvlite.Collection, name string) (string, error) {
	var items []string
	min, err := c.MinItem(false)
	if err != nil {
		return "", err
	}
	if min != nil {
		defer st.ItemDecRef(c, min) // the caller owns the reference MinItem took
		err = c.VisitItemsAscend(min.Key, true, func(i *gkvlite.Item) bool {
			items = append(items, showItem(i, true))
			return true
		})
		if err != nil {
			return "", err
		}
	}
	a, b, err := c.GetTotals()
	if err != nil {
		return "", err
	}
	return fmt.Sprintf("%s{%s}(%d,%d)", hx([]byte(name)), strings.Join(items, ","), a, b), nil
}

func dumpStore(st *gkvlite.Store) string {
	names := st.GetCollectionNames()
	sort.Strings(names)
	var out []string
	for _, n := range names {
		s, err := dumpColl(st, st.GetCollection(n), n)
		if err != nil {
			return errClass(err)
		}
		out = append(out, s)
	}
	return strings.Join(out, ";")
}

// openDigest opens an image with the real package and renders the recovered state.
func openDigest(w *World, img []byte) (res string) {
	defer func() {
		if r := recover(); r != nil {
			res = "panic:" + strings.ReplaceAll(fmt.Sprint(r), " ", "_")
		}
	}()
	st, err := gkvlite.NewStoreEx(memfile.FromBytes(img), w.callbacks())
	if err != nil {
		return errClass(err)
	}
	if w.cfg&(cbNoKeyCmp|cbPartialCmp) != 0 {
		for _, n := range st.GetCollectionNames() {
			st.SetCollection(n, cmpOfName(n))
		}
	}
	d := dumpStore(st)
	st.Close()
	if strings.HasPrefix(d, "err") {
		return "corrupt"
	}
	return "ok " + d
}

// copyOnto runs CopyTo onto a destination file that already holds a store (a private copy of the
// source's own file as it is now) and evaluates C09's predicate on that destination: C09 speaks
// about every file the package writes, so the copy's writes must start at or beyond the end of
// the destination's last root record and leave everything below untouched.  Whether the copy
// succeeds is not the subject here.
func (w *World) copyOnto(sid, fe int) string {
	st := w.stores[sid]
	if st == nil {
		return "ok"
	}
	var orig []byte
	if fid, ok := w.sfile[sid]; ok {
		if src := w.files[fid]; src != nil {
			orig = src.Bytes()
		}
	}
	clone := memfile.FromBytes(append([]byte(nil), orig...))
	clone.Tag = "copydst"
	d0 := int64(0)
	if r := lastRootRecord(orig); r != nil {
		d0 = int64(bytes.LastIndex(orig, r)) + int64(len(r))
	}
	dst, _ := st.CopyTo(clone, fe)
	if dst != nil {
		dst.Close()
	}
	if r := appendCheckLog(clone, d0); r != "ok" {
		return r
	}
	if now := clone.Bytes(); int64(len(now)) < d0 || !bytes.Equal(now[:d0], orig[:d0]) {
		return "bad:durable-prefix-of-copy-destination-changed"
	}
	return "ok"
}
