package main

import (
	"bytes"
	"encoding/binary"
	"fmt"
	"runtime"
	"strconv"
	"strings"
	"time"

	"github.com/cbehopkins/gkvlite"
	"gkvverif/memfile"
)

var readOnlyTags = map[string]bool{"open": true, "get": true, "geti": true, "exist": true, "min": true, "max": true,
	"totals": true, "len": true, "evict": true, "snap": true, "visit": true, "nvisit": true, "dump": true,
	"shape": true, "names": true, "blocks": true, "random": true, "iter": true, "close": true, "set": true,
	"del": true, "setcoll": true, "rmcoll": true, "fill": true, "setroot": true}

// isRootRecord: b, written at file offset `at`, is a root record — both marker pairs, and a trailer
// that names `at` and len(b) (a VALUE may have the same shape, e.g. a backup of another store kept as
// a value; its trailer does not name the place it was written to)
func isRootRecord(b []byte, at int64) bool {
	mb, me := gkvlite.MagicBeg, gkvlite.MagicEnd
	if len(b) < 44 {
		return false
	}
	if !bytes.HasPrefix(b, append(append([]byte{}, mb...), mb...)) ||
		!bytes.HasSuffix(b, append(append([]byte{}, me...), me...)) {
		return false
	}
	tr := b[len(b)-2*len(me)-12:]
	return int64(binary.BigEndian.Uint64(tr[:8])) == at && int(binary.BigEndian.Uint32(tr[8:12])) == len(b)
}

// appendCheck evaluates C09's predicate on the file's complete call log: every write starts at
// or beyond the end of the last durable root record; truncation only by FlushRevert and only to
// the end of a root record or to zero; read-only operations never write or truncate.
func (w *World) appendCheck(fid int) string {
	mf := w.files[fid]
	if mf == nil {
		return "ok"
	}
	return appendCheckLog(mf, 0)
}

// appendCheckLog evaluates C09's predicate on the complete call log of a file whose first
// `durable0` bytes were already there (and end in a root record) when logging began.
func appendCheckLog(mf *memfile.File, durable0 int64) string {
	durable := durable0
	rootEnds := map[int64]bool{0: true, durable0: true}
	for i, e := range mf.Log {
		switch e.Kind {
		case memfile.Write:
			if readOnlyTags[e.Tag] {
				return fmt.Sprintf("bad:write-by-read-path call=%d op=%s", i, e.Tag)
			}
			if e.Off < durable {
				return fmt.Sprintf("bad:write-below-durable-end call=%d off=%d durable=%d op=%s", i, e.Off, durable, e.Tag)
			}
			if !e.Failed && isRootRecord(e.Data, e.Off) {
				durable = e.Off + int64(len(e.Data))
				rootEnds[durable] = true
			}
		case memfile.Trunc:
			if e.Tag != "revert" && e.Tag != "failop" {
				return fmt.Sprintf("bad:truncate-by op=%s call=%d", e.Tag, i)
			}
			if !rootEnds[e.Off] {
				return fmt.Sprintf("bad:truncate-not-at-root-end size=%d call=%d", e.Off, i)
			}
			if !e.Failed {
				durable = e.Off
				for k := range rootEnds {
					if k > e.Off {
						delete(rootEnds, k)
					}
				}
			}
		}
	}
	return "ok"
}

// lastRootRecord finds the last complete root record of an image the way a reader of the format
// description would: by its end magics and its length field.
func lastRootRecord(b []byte) []byte {
	me := append(append([]byte{}, gkvlite.MagicEnd...), gkvlite.MagicEnd...)
	for e := len(b); e > 44; e-- {
		if !bytes.Equal(b[e-12:e], me) {
			continue
		}
		off := int64(binary.BigEndian.Uint64(b[e-24 : e-16]))
		ln := int64(binary.BigEndian.Uint32(b[e-16 : e-12]))
		if off >= 0 && off+44 < int64(e) && ln == int64(e)-off && isRootRecord(b[off:e], off) {
			return append([]byte(nil), b[off:e]...)
		}
	}
	return nil
}

// alterRoot returns a copy of a root record that is NOT a complete self-consistent root record.
func alterRoot(r []byte, mode int) []byte {
	o := append([]byte(nil), r...)
	switch mode % 4 {
	case 0:
		o[len(o)-1] ^= 0xff // second end magic broken
	case 1:
		o[0] ^= 0xff // first begin magic broken
	case 2:
		o[15] ^= 0x01 // version
	case 3:
		o[len(o)-13] ^= 0x01 // length field at the end
	}
	return o
}

// iterOp: iter S N asc|desc T W PROG — PROG is a string over N (Next), C (Close), R (Result).
// The harness always closes the iterator at the end (an abandoned iterator is outside C18).
func (w *World) iterOp(t []string) string {
	n, _ := unhx(t[2])
	_, c, e := w.coll(atoi(t[1]), n)
	if e != "" {
		return e
	}
	tgt, _ := unhx(t[4])
	wv := t[5] == "1"
	base := runtime.NumGoroutine()
	refs0 := gkvlite.VerifRoot(c).Refs
	var it gkvlite.ItemIterator
	if t[3] == "asc" {
		it = c.IterateAscend(tgt, wv)
	} else {
		it = c.IterateDescend(tgt, wv)
	}
	var out []string
	// C18: "after Close() OR EXHAUSTION ... the producer goroutine exits and releases the version
	// it pinned".  The observation always ends with the final "C" of the line protocol, but when
	// the iterator is exhausted (its last Next returned false and no Close followed) the real
	// Close() call is NOT made: the checks below must then hold without it.
	exhausted := false
	for _, ch := range t[6] {
		switch ch {
		case 'N':
			if it.Next() {
				i := it.Result()
				s := "T:" + hx(i.Key) + ":" + strconv.Itoa(int(i.Priority))
				if wv {
					s += ":" + hx(fullVal(i))
				}
				out = append(out, s)
			} else {
				out = append(out, "F")
				exhausted = true
			}
		case 'C':
			time.Sleep(300 * time.Microsecond) // let a producer that runs ahead of the consumer get as far as it can
			it.Close()
			out = append(out, "C")
			exhausted = false
		}
	}
	if !exhausted {
		time.Sleep(300 * time.Microsecond)
		it.Close()
	}
	out = append(out, "C")
	// the producer goroutine must exit and release the version it pinned
	deadline := time.Now().Add(2 * time.Second)
	for time.Now().Before(deadline) {
		if runtime.NumGoroutine() <= base && gkvlite.VerifRoot(c).Refs == refs0 {
			break
		}
		time.Sleep(200 * time.Microsecond)
	}
	if err := it.Err(); err != nil {
		// a failed walk: only the error and what was left behind are reported
		out = []string{errClass(err)}
	}
	if g := runtime.NumGoroutine(); g > base {
		out = append(out, fmt.Sprintf("goroutine-leak:%d", g-base))
		w.dead = true // the process now carries a stuck goroutine: stop here
	}
	if r := gkvlite.VerifRoot(c).Refs; r != refs0 {
		out = append(out, fmt.Sprintf("pin-leak:%d", r-refs0))
		w.dead = true
	}
	return strings.Join(out, ",")
}
