package main

// c05s: a stress stream with REAL goroutines and real pre-emption (supplementary to the cooperative
// scheduler of c05, which only switches at hooks, file calls and callbacks).  One mutator, one
// flusher, several readers on one file-backed store.  The mutator announces the content of every
// version it is about to publish; a reader's full visit must equal one of the versions that were
// current (or about to be published) between the start and the end of its call; no call may panic
// or hang.  Scheduling is not reproducible: this stream searches, it proves nothing, and a replay
// of a failure is a re-run of the same seed that may or may not fail again.

import (
	"bufio"
	"encoding/json"
	"flag"
	"fmt"
	"math/rand"
	"os"
	"path/filepath"
	"sort"
	"strings"
	"sync"
	"sync/atomic"
	"time"

	"github.com/cbehopkins/gkvlite"

	"gkvverif/memfile"
)

func contentHash(m map[string]string) uint64 {
	ks := make([]string, 0, len(m))
	for k := range m {
		ks = append(ks, k)
	}
	sort.Strings(ks)
	var b strings.Builder
	for _, k := range ks {
		b.WriteString(k)
		b.WriteByte(0)
		b.WriteString(m[k])
		b.WriteByte(1)
	}
	return fnv([]byte(b.String()))
}

func stressOne(seed int64, dur time.Duration, nReaders int) string {
	r := rand.New(rand.NewSource(seed))
	mf := memfile.New()
	st, err := gkvlite.NewStore(mf)
	if err != nil {
		return "bad:open " + errClass(err)
	}
	c := st.SetCollection("a", nil)
	oracle := map[string]string{}
	var mu sync.Mutex
	var hashes []uint64 // hashes[i] = content of version i (announced BEFORE it is published)
	announce := func() {
		mu.Lock()
		hashes = append(hashes, contentHash(oracle))
		mu.Unlock()
	}
	nkeys := 1 + r.Intn(12)
	key := func(rr *rand.Rand) string { return fmt.Sprintf("k%02d", rr.Intn(nkeys)) }
	for i := 0; i < r.Intn(nkeys+1); i++ {
		k := key(r)
		oracle[k] = fmt.Sprint(i)
		c.SetItem(&gkvlite.Item{Key: []byte(k), Val: []byte(oracle[k]), Priority: int32(r.Intn(1 << 20))})
	}
	announce()
	if r.Intn(2) == 0 {
		// half of the histories start COLD: flushed and re-opened, so readers load nodes and values
		// from the file while the mutator works on the same tree
		if err := st.Flush(); err != nil {
			return "bad:flush " + errClass(err)
		}
		st.Close()
		if st, err = gkvlite.NewStore(mf); err != nil {
			return "bad:reopen " + errClass(err)
		}
		if c = st.GetCollection("a"); c == nil {
			if len(oracle) > 0 {
				return "bad:collection-missing-after-reopen"
			}
			c = st.SetCollection("a", nil)
		}
	}
	var stop int32
	var bad atomic.Value
	fail := func(s string) { bad.CompareAndSwap(nil, s) }
	guard := func(name string, f func()) {
		defer func() {
			if x := recover(); x != nil {
				msg := fmt.Sprint(x)
				if len(msg) > 70 {
					msg = msg[:70]
				}
				fail("panic:" + name + ":" + strings.ReplaceAll(msg, " ", "_"))
			}
		}()
		f()
	}
	var wg sync.WaitGroup
	// mutator
	wg.Add(1)
	go func() {
		defer wg.Done()
		rr := rand.New(rand.NewSource(seed*7 + 1))
		for n := 0; atomic.LoadInt32(&stop) == 0; n++ {
			guard("mutator", func() {
				k := key(rr)
				if rr.Intn(3) == 0 {
					if _, ok := oracle[k]; ok {
						delete(oracle, k)
						announce()
					}
					if _, err := c.Delete([]byte(k)); err != nil {
						fail("bad:delete " + errClass(err))
					}
				} else {
					oracle[k] = fmt.Sprint(n)
					announce()
					if err := c.SetItem(&gkvlite.Item{Key: []byte(k), Val: []byte(oracle[k]), Priority: int32(rr.Intn(1 << 20))}); err != nil {
						fail("bad:set " + errClass(err))
					}
				}
			})
			if n%64 == 63 {
				time.Sleep(50 * time.Microsecond)
			}
		}
	}()
	// flusher
	wg.Add(1)
	go func() {
		defer wg.Done()
		for atomic.LoadInt32(&stop) == 0 {
			guard("flusher", func() {
				if err := st.Flush(); err != nil {
					fail("bad:flush " + errClass(err))
				}
			})
			time.Sleep(200 * time.Microsecond)
		}
	}()
	// readers
	for ri := 0; ri < nReaders; ri++ {
		wg.Add(1)
		rr := rand.New(rand.NewSource(seed*13 + int64(ri)))
		go func() {
			defer wg.Done()
			for atomic.LoadInt32(&stop) == 0 {
				guard("reader", func() {
					switch rr.Intn(13) {
					case 12:
						// CopyTo of the LIVE store from a reader goroutine.  No property promises that this
						// copy is one version (CopyTo takes MinItem under one pin and visits from that key
						// under a later one; C05's single-version list does not include it, C11 is about
						// sequential histories) - so only "no panic, no hang, no error" is required here;
						// a consistent copy under concurrency is obtained from a Snapshot
						dst, err := st.CopyTo(memfile.New(), []int{0, 1, 3, 100}[rr.Intn(4)])
						if err != nil {
							fail("bad:copyto " + errClass(err))
							return
						}
						dst.Close()
					case 11:
						// C05 names Snapshot among the read-only calls: what a snapshot taken while the
						// mutator runs shows must be ONE version from the window of the Snapshot() call,
						// and must not change afterwards, however long the mutator goes on
						mu.Lock()
						s0 := len(hashes)
						mu.Unlock()
						snap := st.Snapshot()
						mu.Lock()
						s1 := len(hashes)
						window := append([]uint64{}, hashes[max(0, s0-2):s1]...)
						mu.Unlock()
						read := func() (uint64, error) {
							got := map[string]string{}
							sc := snap.GetCollection("a")
							if sc == nil {
								return contentHash(got), nil
							}
							err := sc.VisitItemsAscend([]byte{0}, true, func(i *gkvlite.Item) bool {
								got[string(i.Key)] = string(i.Val)
								return true
							})
							return contentHash(got), err
						}
						h1, err := read()
						if err != nil {
							fail("bad:snapshot-visit " + errClass(err))
						}
						time.Sleep(time.Duration(rr.Intn(300)) * time.Microsecond)
						h2, err := read()
						if err != nil {
							fail("bad:snapshot-visit " + errClass(err))
						}
						snap.Close()
						if h1 != h2 {
							fail("bad:snapshot-changed-between-two-reads")
						}
						ok := false
						for _, x := range window {
							if x == h1 {
								ok = true
							}
						}
						if !ok {
							fail(fmt.Sprintf("bad:snapshot-shows-no-single-version window=%d", len(window)))
						}
					case 8:
						c.AllocStats() // takes all three allocator locks
					case 9, 10:
						// an iterator abandoned part-way: its producer goroutine releases the pin
						// (possibly the last reference of a superseded version) on its own
						it := c.IterateAscend([]byte{0}, rr.Intn(2) == 0)
						for n := rr.Intn(3); n > 0 && it.Next(); n-- {
						}
						it.Close()
						c.AllocStats()
					case 0:
						c.Len()
					case 1:
						c.VisitItemsRandom(func(i *gkvlite.Item, d uint64) bool { return true })
					case 2:
						c.VisitItemsAscendBlockEx(false, nil, func(i *gkvlite.Item, d uint64) bool { return true })
					case 3:
						if i, err := c.MinItem(true); err == nil && i != nil {
							st.ItemDecRef(c, i)
						}
						c.GetTotals()
					case 4:
						// a value read must return a value some version held for that key (or nil)
						k := key(rr)
						v, err := c.Get([]byte(k))
						if err != nil {
							fail("bad:get " + errClass(err))
						} else if v != nil {
							if _, err := fmt.Sscanf(string(v), "%d", new(int)); err != nil {
								fail(fmt.Sprintf("bad:get-returned-foreign-bytes key=%s val=%q", k, v))
							}
						}
					default:
						mu.Lock()
						s0 := len(hashes)
						mu.Unlock()
						got := map[string]string{}
						asc := rr.Intn(2) == 0
						var prev []byte
						ordered := true
						v := func(i *gkvlite.Item) bool {
							if prev != nil && ((asc && string(prev) >= string(i.Key)) || (!asc && string(prev) <= string(i.Key))) {
								ordered = false
							}
							prev = append(prev[:0], i.Key...)
							got[string(i.Key)] = string(i.Val)
							return true
						}
						var err error
						if asc {
							err = c.VisitItemsAscend([]byte{0}, true, v)
						} else {
							err = c.VisitItemsDescend([]byte{0xff}, true, v)
						}
						mu.Lock()
						s1 := len(hashes)
						window := append([]uint64{}, hashes[max(0, s0-2):s1]...)
						mu.Unlock()
						if err != nil {
							fail("bad:visit " + errClass(err))
							return
						}
						if !ordered {
							fail("bad:visit-out-of-order")
							return
						}
						h := contentHash(got)
						ok := false
						for _, x := range window {
							if x == h {
								ok = true
							}
						}
						if !ok {
							fail(fmt.Sprintf("bad:visit-saw-no-single-version items=%d window=%d", len(got), len(window)))
						}
					}
				})
			}
		}()
	}
	time.Sleep(dur)
	atomic.StoreInt32(&stop, 1)
	done := make(chan struct{})
	go func() { wg.Wait(); close(done) }()
	select {
	case <-done:
	case <-time.After(10 * time.Second):
		return "hang"
	}
	if b := bad.Load(); b != nil {
		return b.(string)
	}
	// quiescent: the store equals the oracle, also after a final flush and re-open
	final := map[string]string{}
	c.VisitItemsAscend([]byte{0}, true, func(i *gkvlite.Item) bool { final[string(i.Key)] = string(i.Val); return true })
	if contentHash(final) != contentHash(oracle) {
		return "bad:final-content-differs-from-the-mutator's"
	}
	if err := st.Flush(); err != nil {
		return "bad:flush " + errClass(err)
	}
	st2, err := gkvlite.NewStore(mf)
	if err != nil {
		return "bad:reopen " + errClass(err)
	}
	re := map[string]string{}
	if c2 := st2.GetCollection("a"); c2 != nil {
		c2.VisitItemsAscend([]byte{0}, true, func(i *gkvlite.Item) bool { re[string(i.Key)] = string(i.Val); return true })
	}
	if contentHash(re) != contentHash(oracle) {
		return "bad:reopened-content-differs"
	}
	return "ok"
}

func cmdC05Stress(args []string) {
	fs := flag.NewFlagSet("c05s", flag.ExitOnError)
	seed := fs.Int64("seed", 1, "seed")
	tier := fs.String("tier", "quick", "tier")
	dir := fs.String("dir", ".", "output directory")
	nh := fs.Int("n", 20, "histories")
	fs.Parse(args)
	os.MkdirAll(*dir, 0755)
	fo, _ := os.Create(filepath.Join(*dir, "ops.txt"))
	fi, _ := os.Create(filepath.Join(*dir, "impl.txt"))
	bo, bi := bufio.NewWriter(fo), bufio.NewWriter(fi)
	st := stats{OpKinds: map[string]int{}, ObsKinds: map[string]int{}}
	ms := 60
	if *tier == "thorough" {
		ms = 150
	}
	for h := 0; h < *nh; h++ {
		s := *seed*100003 + int64(h)
		readers := 2 + h%4
		fmt.Fprintln(bo, "reset")
		fmt.Fprintln(bi, "ok")
		l := fmt.Sprintf("cx stress seed=%d ms=%d readers=%d", s, ms, readers)
		o := stressOne(s, time.Duration(ms)*time.Millisecond, readers)
		fmt.Fprintln(bo, l)
		fmt.Fprintln(bi, o)
		st.Ops += 2
		st.Histories++
		st.OpKinds["stress"]++
		st.ObsKinds[obsKind(o)]++
		if h < 3 {
			st.Samples = append(st.Samples, l)
		}
		if o == "hang" {
			break
		}
	}
	st.Distinct = st.Histories
	bo.Flush()
	bi.Flush()
	fo.Close()
	fi.Close()
	js, _ := json.MarshalIndent(map[string]interface{}{"stats": st}, "", " ")
	os.WriteFile(filepath.Join(*dir, "stats.json"), js, 0644)
}
