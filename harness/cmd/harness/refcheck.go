package main

import (
	"fmt"
	"sort"

	"github.com/cbehopkins/gkvlite"
)

// refCheck evaluates C15's predicate on the callback log so far: no count ever went below
// zero, no item was handed to the caller with a non-positive count, and every item cached in a
// node reachable from an open handle has a positive count.
func (w *World) refCheck() string {
	if w.rc == nil {
		return "ok"
	}
	w.rc.mu.Lock()
	neg := append([]string(nil), w.rc.negative...)
	w.rc.mu.Unlock()
	if len(neg) > 0 {
		return "bad:" + neg[0]
	}
	var sids []int
	for s := range w.stores {
		sids = append(sids, s)
	}
	sort.Ints(sids)
	for _, s := range sids {
		st := w.stores[s]
		for _, n := range st.GetCollectionNames() {
			bad := ""
			gkvlite.VerifWalk(st.GetCollection(n), func(ni gkvlite.VerifNodeInfo) {
				if ni.Item != nil && bad == "" && w.rc.get(ni.Item) <= 0 {
					bad = fmt.Sprintf("bad:reachable-item-count<=0 sid=%d key=%x count=%d", s, ni.Item.Key, w.rc.get(ni.Item))
				}
			})
			if bad != "" {
				return bad
			}
		}
	}
	return "ok"
}

// refBalance: after everything was closed, every reference gkvlite took must be released.
func (w *World) refBalance() string {
	if w.rc == nil || len(w.stores) > 0 || w.dropped > 0 {
		return "ok" // the precondition (everything closed) does not hold: nothing to check
	}
	w.rc.mu.Lock()
	defer w.rc.mu.Unlock()
	leaked, total := 0, 0
	ex := ""
	for it, c := range w.rc.cnt {
		total++
		if c != 0 {
			leaked++
			if ex == "" || fmt.Sprintf("key=%x count=%d", it.Key, c) < ex {
				ex = fmt.Sprintf("key=%x count=%d", it.Key, c)
			}
		}
	}
	if leaked > 0 {
		return fmt.Sprintf("bad:unbalanced items=%d of %d e.g. %s", leaked, total, ex)
	}
	return "ok"
}
