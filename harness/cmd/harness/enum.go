package main

import (
	"flag"
	"fmt"
	"math/rand"
)

// permutations of 0..n-1
func perms(n int) [][]int {
	if n == 0 {
		return [][]int{{}}
	}
	var out [][]int
	for _, p := range perms(n - 1) {
		for i := 0; i <= len(p); i++ {
			q := append(append(append([]int{}, p[:i]...), n-1), p[i:]...)
			out = append(out, q)
		}
	}
	return out
}

// c13: exhaustively every insertion order and every priority ranking for small key sets, then
// every delete/overwrite suffix of bounded length; the shape (with depths and aggregates) is
// observed after every history.
func cmdC13(args []string) {
	fs := flag.NewFlagSet("c13", flag.ExitOnError)
	seed := fs.Int64("seed", 1, "seed")
	tier := fs.String("tier", "quick", "tier")
	dir := fs.String("dir", ".", "output directory")
	fs.Int("n", 0, "unused")
	fs.Parse(args)
	r := rand.New(rand.NewSource(*seed))
	maxN := 4
	if *tier == "thorough" {
		maxN = 5
	}
	var hist [][]string
	for n := 1; n <= maxN; n++ {
		orders, ranks := perms(n), perms(n)
		for _, ord := range orders {
			for _, rk := range ranks {
				file := r.Intn(3) == 0
				l := []string{"reset", "cfg 0"}
				if file {
					l = append(l, "open 1 1")
				} else {
					l = append(l, "mem 1")
				}
				name := []string{"a", "rv", "fo"}[r.Intn(3)]
				hn := hx([]byte(name))
				l = append(l, "setcoll 1 "+hn)
				for _, k := range ord {
					l = append(l, fmt.Sprintf("set 1 %s %s %s %d", hn, hx([]byte{byte('a' + k)}), hx([]byte{byte('0' + k)}), 10+rk[k]))
				}
				if file && r.Intn(2) == 0 {
					l = append(l, "flush 1", "close 1", "open 1 1")
				}
				l = append(l, "shape 1 "+hn)
				// a short delete / overwrite-with-higher-priority suffix
				for i, m := 0, r.Intn(3); i < m; i++ {
					k := r.Intn(n)
					if r.Intn(2) == 0 {
						l = append(l, fmt.Sprintf("del 1 %s %s", hn, hx([]byte{byte('a' + k)})))
					} else {
						l = append(l, fmt.Sprintf("set 1 %s %s %s %d", hn, hx([]byte{byte('a' + k)}), hx([]byte("x")), 100+i*7+k))
					}
					l = append(l, "shape 1 "+hn)
				}
				hist = append(hist, l)
			}
		}
	}
	runLines(*dir, hist)
}

// c01x: exhaustively every operation sequence of bounded length over 3 keys x 3 priorities.
func cmdC01x(args []string) {
	fs := flag.NewFlagSet("c01x", flag.ExitOnError)
	tier := fs.String("tier", "quick", "tier")
	dir := fs.String("dir", ".", "output directory")
	fs.Int64("seed", 1, "unused")
	fs.Int("n", 0, "unused")
	fs.Parse(args)
	maxLen := 3
	if *tier == "thorough" {
		maxLen = 4
	}
	hn := hx([]byte("a"))
	var alphabet []string
	for k := 0; k < 3; k++ {
		for p := 0; p < 3; p++ {
			alphabet = append(alphabet, fmt.Sprintf("set 1 %s %s %s %d", hn, hx([]byte{byte('a' + k)}), hx([]byte{byte('0' + p), byte('A' + k)}), p))
		}
		alphabet = append(alphabet, fmt.Sprintf("del 1 %s %s", hn, hx([]byte{byte('a' + k)})))
	}
	var hist [][]string
	var rec func(prefix []string, depth int)
	rec = func(prefix []string, depth int) {
		if depth > 0 {
			l := append([]string{"reset", "cfg 0", "mem 1", "setcoll 1 " + hn}, prefix...)
			l = append(l, "dump 1", "min 1 "+hn+" 1", "max 1 "+hn+" 1", "shape 1 "+hn)
			hist = append(hist, l)
		}
		if depth == maxLen {
			return
		}
		for _, a := range alphabet {
			rec(append(append([]string{}, prefix...), a), depth+1)
		}
	}
	rec(nil, 0)
	runLines(*dir, hist)
}
