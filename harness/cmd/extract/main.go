// Command extract is the translator of /verif: it parses the gkvlite package in /repo (go/parser +
// go/types, standard library only) and regenerates Lean *fact tables* — constants of the file
// format, the static call graph with file/dynamic-call sinks, the calls made while a lock is
// held, and the version-pin brackets of the read entry points.  It emits data only; the Lean
// side proves things about the tables.
package main

import (
	"flag"
	"fmt"
	"go/ast"
	"go/constant"
	"go/importer"
	"go/parser"
	"go/token"
	"go/types"
	"os"
	"path/filepath"
	"sort"
	"strconv"
	"strings"
)

type extractor struct {
	fset  *token.FileSet
	files []*ast.File
	info  *types.Info
	pkg   *types.Package

	funcs   map[string]*ast.FuncDecl // qualified name -> decl
	methods map[string][]string      // method name -> qualified names having it
	edges   map[[2]string]bool
	locked  map[[3]string]bool // caller, callee, lock
	pins    map[string][2]bool
}

func qualName(fd *ast.FuncDecl) string {
	if fd.Recv == nil || len(fd.Recv.List) == 0 {
		return fd.Name.Name
	}
	t := fd.Recv.List[0].Type
	if s, ok := t.(*ast.StarExpr); ok {
		t = s.X
	}
	if id, ok := t.(*ast.Ident); ok {
		return id.Name + "." + fd.Name.Name
	}
	return "?." + fd.Name.Name
}

func fail(f string, a ...interface{}) {
	fmt.Fprintf(os.Stderr, "extract: "+f+"\n", a...)
	os.Exit(1)
}

func main() {
	repo := flag.String("repo", "/repo", "repository root")
	out := flag.String("out", ".", "output directory for Gen/*.lean")
	sub := flag.String("pkg", "", "sub-package (e.g. tools/view); empty = root package")
	flag.Parse()
	dir := filepath.Join(*repo, *sub)
	ex := &extractor{fset: token.NewFileSet(), funcs: map[string]*ast.FuncDecl{}, methods: map[string][]string{},
		edges: map[[2]string]bool{}, locked: map[[3]string]bool{}, pins: map[string][2]bool{}}
	pkgs, err := parser.ParseDir(ex.fset, dir, func(fi os.FileInfo) bool {
		n := fi.Name()
		return !strings.HasSuffix(n, "_test.go") && !strings.HasPrefix(n, "verif_")
	}, parser.ParseComments)
	if err != nil {
		fail("parse: %v", err)
	}
	var names []string
	for n := range pkgs {
		names = append(names, n)
	}
	sort.Strings(names)
	if len(names) != 1 {
		fail("expected one package in %s, got %v", dir, names)
	}
	var fnames []string
	for fn := range pkgs[names[0]].Files {
		fnames = append(fnames, fn)
	}
	sort.Strings(fnames)
	for _, fn := range fnames {
		ex.files = append(ex.files, pkgs[names[0]].Files[fn])
	}
	ex.info = &types.Info{Types: map[ast.Expr]types.TypeAndValue{}, Uses: map[*ast.Ident]types.Object{},
		Defs: map[*ast.Ident]types.Object{}, Selections: map[*ast.SelectorExpr]*types.Selection{}}
	conf := types.Config{Importer: importer.ForCompiler(ex.fset, "source", nil), Error: func(error) {}}
	ex.pkg, _ = conf.Check("gkvlite", ex.fset, ex.files, ex.info)
	if ex.pkg == nil {
		fail("type check failed")
	}
	for _, f := range ex.files {
		for _, d := range f.Decls {
			if fd, ok := d.(*ast.FuncDecl); ok && fd.Body != nil {
				q := qualName(fd)
				ex.funcs[q] = fd
				if fd.Recv != nil {
					ex.methods[fd.Name.Name] = append(ex.methods[fd.Name.Name], q)
				}
			}
		}
	}
	if *sub == "" {
		ex.writeConsts(filepath.Join(*out, "Consts.lean"))
	}
	for q, fd := range ex.funcs {
		ex.walkFunc(q, fd)
	}
	suffix := ""
	if *sub != "" {
		suffix = strings.Title(filepath.Base(*sub))
	}
	ex.writeGraph(filepath.Join(*out, "CallGraph"+suffix+".lean"), "CallGraph"+suffix)
	if *sub == "" {
		ex.writeLocks(filepath.Join(*out, "Locks.lean"))
		ex.writePins(filepath.Join(*out, "Pins.lean"))
		ex.writeCas(filepath.Join(*out, "Cas.lean"))
		ex.writeWriteOrder(filepath.Join(*out, "WriteOrder.lean"))
		ex.writeSlotCopies(filepath.Join(*out, "SlotCopies.lean"))
		ex.writeIgnoredErrors(filepath.Join(*out, "IgnoredErrors.lean"))
		ex.writeCallbacks(filepath.Join(*out, "Callbacks.lean"))
		ex.writeSites(filepath.Join(*out, "Sites.lean"))
	}
}

// ---------------------------------------------------------------------------------------------
// ignored errors (C07): every call in the package whose last result is an `error` that is either
// assigned to the blank identifier or not bound at all (expression statement, go, defer).

func (ex *extractor) callReturnsError(c *ast.CallExpr) bool {
	tv, ok := ex.info.Types[c]
	if !ok || tv.Type == nil {
		return false
	}
	isErr := func(t types.Type) bool { return t.String() == "error" }
	if tup, ok := tv.Type.(*types.Tuple); ok {
		return tup.Len() > 0 && isErr(tup.At(tup.Len()-1).Type())
	}
	return isErr(tv.Type)
}

func calleeName(c *ast.CallExpr) string {
	switch f := c.Fun.(type) {
	case *ast.Ident:
		return f.Name
	case *ast.SelectorExpr:
		return f.Sel.Name
	}
	return "?"
}

func (ex *extractor) writeIgnoredErrors(path string) {
	var rows []string
	for q, fd := range ex.funcs {
		if fd.Body == nil {
			continue
		}
		add := func(c *ast.CallExpr, how string) {
			// as errcheck does by default: fmt's printers and writes to a bytes.Buffer cannot fail
			if sel, ok := c.Fun.(*ast.SelectorExpr); ok {
				if obj := ex.info.Uses[sel.Sel]; obj != nil && obj.Pkg() != nil && obj.Pkg().Path() == "fmt" {
					return
				}
				if tv, ok := ex.info.Types[sel.X]; ok && tv.Type != nil && strings.HasSuffix(tv.Type.String(), "bytes.Buffer") {
					return
				}
			}
			if ex.callReturnsError(c) {
				rows = append(rows, fmt.Sprintf("(%q, %q, %q)", q, calleeName(c), how))
			}
		}
		ast.Inspect(fd.Body, func(n ast.Node) bool {
			switch x := n.(type) {
			case *ast.ExprStmt:
				if c, ok := x.X.(*ast.CallExpr); ok {
					add(c, "dropped")
				}
			case *ast.GoStmt:
				add(x.Call, "dropped")
			case *ast.DeferStmt:
				add(x.Call, "dropped")
			case *ast.AssignStmt:
				if len(x.Rhs) == 1 {
					if c, ok := x.Rhs[0].(*ast.CallExpr); ok && len(x.Lhs) > 0 {
						if id, ok := x.Lhs[len(x.Lhs)-1].(*ast.Ident); ok && id.Name == "_" {
							add(c, "blank")
						}
					}
				}
			}
			return true
		})
	}
	sort.Strings(rows)
	var b strings.Builder
	b.WriteString("/- GENERATED by /verif/harness/cmd/extract from /repo — do not edit. -/\nnamespace Gkv.Gen.IgnoredErrors\n\n")
	b.WriteString("/-- every call whose last result is an `error` that is assigned to `_` (\"blank\") or not bound at all\n    (\"dropped\": expression statement, go, defer): (enclosing function, callee, how) -/\n")
	b.WriteString("def sites : List (String × String × String) := [\n")
	for i, r := range rows {
		sep := ","
		if i == len(rows)-1 {
			sep = ""
		}
		b.WriteString("  " + r + sep + "\n")
	}
	b.WriteString("]\n\nend Gkv.Gen.IgnoredErrors\n")
	if err := os.WriteFile(path, []byte(b.String()), 0644); err != nil {
		fail("%v", err)
	}
}

// ---------------------------------------------------------------------------------------------
// callback dispatch (C17): where the package consults a StoreCallbacks field, where it touches
// Item.Val directly, and where a Store is given its callbacks.  "Each code path consults the
// callback consistently" becomes: every field is consulted in exactly one wrapper function, the
// value's length and bytes are taken from Item.Val in exactly the default arms of those wrappers,
// and every derived store (snapshot, CopyTo destination) receives the whole callback struct.

func (ex *extractor) isNamed(e ast.Expr, name string) bool {
	tv, ok := ex.info.Types[e]
	if !ok || tv.Type == nil {
		return false
	}
	t := tv.Type
	if p, ok := t.(*types.Pointer); ok {
		t = p.Elem()
	}
	n, ok := t.(*types.Named)
	return ok && n.Obj().Name() == name
}

func (ex *extractor) writeCallbacks(path string) {
	var fields, vals, copies []string
	for q, fd := range ex.funcs {
		if fd.Body == nil {
			continue
		}
		// parents, to classify a use by its context
		parent := map[ast.Node]ast.Node{}
		var stack []ast.Node
		ast.Inspect(fd.Body, func(n ast.Node) bool {
			if n == nil {
				stack = stack[:len(stack)-1]
				return true
			}
			if len(stack) > 0 {
				parent[n] = stack[len(stack)-1]
			}
			stack = append(stack, n)
			return true
		})
		ast.Inspect(fd.Body, func(n ast.Node) bool {
			switch x := n.(type) {
			case *ast.SelectorExpr:
				// X.callbacks.F
				if inner, ok := x.X.(*ast.SelectorExpr); ok && inner.Sel.Name == "callbacks" && ex.isNamed(inner, "StoreCallbacks") {
					fields = append(fields, fmt.Sprintf("(%q, %q)", q, x.Sel.Name))
				}
				// whole struct used as a value
				if x.Sel.Name == "callbacks" && ex.isNamed(x, "StoreCallbacks") {
					if _, isSel := parent[x].(*ast.SelectorExpr); !isSel {
						copies = append(copies, fmt.Sprintf("(%q, %q)", q, exprString(x)))
					}
				}
				// I.Val on an Item
				if x.Sel.Name == "Val" && ex.isNamed(x.X, "Item") {
					how := "use"
					switch pp := parent[x].(type) {
					case *ast.CallExpr:
						if id, ok := pp.Fun.(*ast.Ident); ok && id.Name == "len" {
							how = "len"
						} else if sel, ok := pp.Fun.(*ast.SelectorExpr); ok && (sel.Sel.Name == "ReadAt" || sel.Sel.Name == "WriteAt") {
							how = "io"
						}
					case *ast.BinaryExpr:
						if isNilIdent(pp.X) || isNilIdent(pp.Y) {
							how = "nilcmp"
						}
					case *ast.AssignStmt:
						for _, l := range pp.Lhs {
							if l == ast.Expr(x) {
								how = "store"
							}
						}
					case *ast.KeyValueExpr:
						how = "copy"
					case *ast.ReturnStmt:
						how = "return"
					}
					vals = append(vals, fmt.Sprintf("(%q, %q)", q, how))
				}
			case *ast.KeyValueExpr:
				// Store{callbacks: <ident>} with a plain identifier (NewStoreEx's parameter)
				if k, ok := x.Key.(*ast.Ident); ok && k.Name == "callbacks" {
					if id, ok := x.Value.(*ast.Ident); ok {
						copies = append(copies, fmt.Sprintf("(%q, %q)", q, id.Name))
					}
				}
			}
			return true
		})
	}
	sort.Strings(fields)
	sort.Strings(vals)
	sort.Strings(copies)
	var b strings.Builder
	b.WriteString("/- GENERATED by /verif/harness/cmd/extract from /repo — do not edit. -/\nnamespace Gkv.Gen.Callbacks\n\n")
	tbl := func(doc, name string, rows []string) {
		b.WriteString("/-- " + doc + " -/\ndef " + name + " : List (String × String) := [\n")
		for i, r := range rows {
			sep := ","
			if i == len(rows)-1 {
				sep = ""
			}
			b.WriteString("  " + r + sep + "\n")
		}
		b.WriteString("]\n\n")
	}
	tbl("every use of a field of a store's `callbacks`: (enclosing function, field)", "fieldUses", fields)
	tbl("every use of `Item.Val`: (enclosing function, how) with how = len | io (argument of ReadAt/WriteAt) | nilcmp |\n    store (assigned to) | copy (composite literal) | return | use", "valUses", vals)
	tbl("every place a whole `StoreCallbacks` value is used: (enclosing function, expression)", "structUses", copies)
	b.WriteString("end Gkv.Gen.Callbacks\n")
	if err := os.WriteFile(path, []byte(b.String()), 0644); err != nil {
		fail("%v", err)
	}
}

// ---------------------------------------------------------------------------------------------
// child slots are loaded before they are copied into a new node (C15 / C10: no node is ever loaded
// under a node that has already been replaced).  A "copy site" is an argument `&X.left` / `&X.right`
// of a call to `mkNode` or `Copy`.  It is guarded when an earlier call in the same function reads
// the same slot: `numInfo(.., &X.left, ..)` or `X.left.read(..)`.  (Textual order, not dominance:
// the expected list of sites is reviewed by hand in Props/C15.)

func childSlot(e ast.Expr) (string, bool) {
	u, ok := e.(*ast.UnaryExpr)
	if !ok || u.Op != token.AND {
		return "", false
	}
	sel, ok := u.X.(*ast.SelectorExpr)
	if !ok || (sel.Sel.Name != "left" && sel.Sel.Name != "right") {
		return "", false
	}
	id, ok := sel.X.(*ast.Ident)
	if !ok {
		return "", false
	}
	return id.Name + "." + sel.Sel.Name, true
}

func (ex *extractor) writeSlotCopies(path string) {
	type site struct {
		fn, slot string
		guarded  bool
	}
	var sites []site
	for q, fd := range ex.funcs {
		if fd.Body == nil {
			continue
		}
		type rd struct {
			slot string
			pos  token.Pos
		}
		var reads []rd
		type cp struct {
			slot string
			pos  token.Pos
		}
		var copies []cp
		ast.Inspect(fd.Body, func(n ast.Node) bool {
			c, ok := n.(*ast.CallExpr)
			if !ok {
				return true
			}
			name := ""
			switch f := c.Fun.(type) {
			case *ast.Ident:
				name = f.Name
			case *ast.SelectorExpr:
				name = f.Sel.Name
				// X.left.read(..)
				if name == "read" {
					if sel, ok := f.X.(*ast.SelectorExpr); ok && (sel.Sel.Name == "left" || sel.Sel.Name == "right") {
						if id, ok := sel.X.(*ast.Ident); ok {
							reads = append(reads, rd{id.Name + "." + sel.Sel.Name, c.Pos()})
						}
					}
				}
			}
			for _, a := range c.Args {
				if sl, ok := childSlot(a); ok {
					switch name {
					case "numInfo":
						reads = append(reads, rd{sl, c.Pos()})
					case "mkNode", "Copy":
						copies = append(copies, cp{sl, c.Pos()})
					}
				}
			}
			return true
		})
		for _, c := range copies {
			g := false
			for _, r := range reads {
				if r.slot == c.slot && r.pos < c.pos {
					g = true
				}
			}
			sites = append(sites, site{q, c.slot, g})
		}
	}
	sort.Slice(sites, func(i, j int) bool {
		if sites[i].fn != sites[j].fn {
			return sites[i].fn < sites[j].fn
		}
		return sites[i].slot < sites[j].slot
	})
	// numInfo reads both of its nodeLoc parameters
	numInfoReads := 0
	if fd := ex.funcs["numInfo"]; fd != nil && fd.Body != nil {
		seen := map[string]bool{}
		ast.Inspect(fd.Body, func(n ast.Node) bool {
			if c, ok := n.(*ast.CallExpr); ok {
				if f, ok := c.Fun.(*ast.SelectorExpr); ok && f.Sel.Name == "read" {
					if id, ok := f.X.(*ast.Ident); ok && (id.Name == "left" || id.Name == "right") {
						seen[id.Name] = true
					}
				}
			}
			return true
		})
		numInfoReads = len(seen)
	}
	var b strings.Builder
	b.WriteString("/- GENERATED by /verif/harness/cmd/extract from /repo — do not edit. -/\nnamespace Gkv.Gen.SlotCopies\n\n")
	b.WriteString("/-- every argument `&X.left` / `&X.right` of a call to `mkNode` or `Copy`: (function, slot, an earlier call in the\n    function reads that slot: `numInfo(.., &X.left, ..)` or `X.left.read(..)`) -/\n")
	b.WriteString("def sites : List (String × String × Bool) := [\n")
	for i, st := range sites {
		sep := ","
		if i == len(sites)-1 {
			sep = ""
		}
		fmt.Fprintf(&b, "  (%q, %q, %v)%s\n", st.fn, st.slot, st.guarded, sep)
	}
	b.WriteString("]\n\n/-- how many of numInfo's two nodeLoc parameters it reads -/\n")
	fmt.Fprintf(&b, "def numInfoReads : Nat := %d\n\nend Gkv.Gen.SlotCopies\n", numInfoReads)
	if err := os.WriteFile(path, []byte(b.String()), 0644); err != nil {
		fail("%v", err)
	}
}

// ---------------------------------------------------------------------------------------------
// publication order of file locations (C02, C05, C07): in itemLoc.write / nodeLoc.write a
// location is published (`setLoc(non-nil)`) exactly once, after every file write of the record,
// each of which is error-checked with an early return; nothing un-publishes (`setLoc(nil)`).

func isNilIdent(e ast.Expr) bool {
	id, ok := e.(*ast.Ident)
	return ok && id.Name == "nil"
}

func returnsOnErr(st ast.Stmt) bool {
	ifs, ok := st.(*ast.IfStmt)
	if !ok {
		return false
	}
	be, ok := ifs.Cond.(*ast.BinaryExpr)
	if !ok || be.Op != token.NEQ || !isNilIdent(be.Y) {
		return false
	}
	if id, ok := be.X.(*ast.Ident); !ok || id.Name != "err" {
		return false
	}
	for _, b := range ifs.Body.List {
		if _, ok := b.(*ast.ReturnStmt); ok {
			return true
		}
	}
	return false
}

func (ex *extractor) writeWriteOrder(path string) {
	var b strings.Builder
	b.WriteString("/- GENERATED by /verif/harness/cmd/extract from /repo — do not edit. -/\nnamespace Gkv.Gen.WriteOrder\n\n")
	b.WriteString("/-- (function, number of `setLoc(non-nil)` calls, number of file-write calls (`WriteAt`, `ItemValWrite`),\n    every publication lies after every file write, every file write is followed by `if err != nil { return }`,\n    no `setLoc(nil)`) -/\n")
	b.WriteString("def writers : List (String × Nat × Nat × Bool × Bool × Bool) := [\n")
	names := []string{"itemLoc.write", "nodeLoc.write"}
	for i, q := range names {
		fd := ex.funcs[q]
		nPub, nWr := 0, 0
		after, guarded, noRollback := true, true, true
		if fd == nil || fd.Body == nil {
			after, guarded, noRollback = false, false, false
		} else {
			var pubs, wrs []token.Pos
			isWrite := func(c *ast.CallExpr) bool {
				sel, ok := c.Fun.(*ast.SelectorExpr)
				return ok && (sel.Sel.Name == "WriteAt" || sel.Sel.Name == "ItemValWrite")
			}
			ast.Inspect(fd.Body, func(n ast.Node) bool {
				if c, ok := n.(*ast.CallExpr); ok {
					if sel, ok := c.Fun.(*ast.SelectorExpr); ok && sel.Sel.Name == "setLoc" && len(c.Args) == 1 {
						if isNilIdent(c.Args[0]) {
							noRollback = false
						} else {
							pubs = append(pubs, c.Pos())
						}
					}
					if isWrite(c) {
						wrs = append(wrs, c.Pos())
					}
				}
				return true
			})
			nPub, nWr = len(pubs), len(wrs)
			for _, p := range pubs {
				for _, w := range wrs {
					if p < w {
						after = false
					}
				}
			}
			// guard shape: `if _, err := W; err != nil { return }` or `err := W` + next stmt `if err != nil { return }`
			nGuarded := 0
			ast.Inspect(fd.Body, func(n ast.Node) bool {
				blk, ok := n.(*ast.BlockStmt)
				if !ok {
					return true
				}
				for j, st := range blk.List {
					switch x := st.(type) {
					case *ast.IfStmt:
						if as, ok := x.Init.(*ast.AssignStmt); ok && len(as.Rhs) == 1 {
							if c, ok := as.Rhs[0].(*ast.CallExpr); ok && isWrite(c) && returnsOnErr(&ast.IfStmt{Cond: x.Cond, Body: x.Body}) {
								nGuarded++
							}
						}
					case *ast.AssignStmt:
						if len(x.Rhs) == 1 {
							if c, ok := x.Rhs[0].(*ast.CallExpr); ok && isWrite(c) && j+1 < len(blk.List) && returnsOnErr(blk.List[j+1]) {
								nGuarded++
							}
						}
					}
				}
				return true
			})
			guarded = nGuarded == nWr
		}
		sep := ","
		if i == len(names)-1 {
			sep = ""
		}
		fmt.Fprintf(&b, "  (%q, %d, %d, %v, %v, %v)%s\n", q, nPub, nWr, after, guarded, noRollback, sep)
	}
	b.WriteString("]\n\n/-- in `itemLoc.Copy`: the first read of `src.item` lies before the first read of `src.loc` (defect F16) -/\n")
	itemFirst := false
	if fd := ex.funcs["itemLoc.Copy"]; fd != nil && fd.Body != nil {
		var pItem, pLoc token.Pos
		ast.Inspect(fd.Body, func(n ast.Node) bool {
			if sel, ok := n.(*ast.SelectorExpr); ok {
				if id, ok := sel.X.(*ast.Ident); ok && id.Name == "src" {
					if sel.Sel.Name == "item" && pItem == 0 {
						pItem = sel.Pos()
					}
					if sel.Sel.Name == "loc" && pLoc == 0 {
						pLoc = sel.Pos()
					}
				}
			}
			return true
		})
		itemFirst = pItem != 0 && pLoc != 0 && pItem < pLoc
	}
	fmt.Fprintf(&b, "def copyReadsItemFirst : Bool := %v\n", itemFirst)
	b.WriteString("\nend Gkv.Gen.WriteOrder\n")
	if err := os.WriteFile(path, []byte(b.String()), 0644); err != nil {
		fail("%v", err)
	}
}

// ---------------------------------------------------------------------------------------------
// compare-and-swap sites on the collection map (C12)

// casSite: one call `_.casColl(x, y)`.
//
//	argIdent     the first argument is a plain identifier x
//	defGetColl   x has exactly one definition in the function and it is `x := _.getColl()`
//	defBefore    that definition precedes the call
//	sameLoop     definition and call have the same innermost enclosing `for` (or none)
//	copiesFromX  every `copyColl(...)` in the function mentions x and calls no getColl itself
//	             (true when the function has no copyColl)
type casSite struct {
	fn                                                     string
	argIdent, defGetColl, defBefore, sameLoop, copiesFromX bool
}

func isGetCollCall(e ast.Expr) bool {
	c, ok := e.(*ast.CallExpr)
	if !ok || len(c.Args) != 0 {
		return false
	}
	sel, ok := c.Fun.(*ast.SelectorExpr)
	return ok && sel.Sel.Name == "getColl"
}

func (ex *extractor) casSites() []casSite {
	var out []casSite
	for q, fd := range ex.funcs {
		if fd.Body == nil {
			continue
		}
		// innermost enclosing for-statement of every node position
		type span struct{ lo, hi token.Pos }
		var loops []span
		ast.Inspect(fd.Body, func(n ast.Node) bool {
			switch l := n.(type) {
			case *ast.ForStmt:
				loops = append(loops, span{l.Pos(), l.End()})
			case *ast.RangeStmt:
				loops = append(loops, span{l.Pos(), l.End()})
			}
			return true
		})
		inner := func(p token.Pos) span {
			best := span{}
			for _, l := range loops {
				if l.lo <= p && p < l.hi && (best.hi == 0 || l.hi-l.lo < best.hi-best.lo) {
					best = l
				}
			}
			return best
		}
		// definitions of identifiers: name -> (positions, rhs is getColl())
		type def struct {
			pos     token.Pos
			getColl bool
		}
		defs := map[string][]def{}
		var copies []*ast.CallExpr
		var cass []*ast.CallExpr
		ast.Inspect(fd.Body, func(n ast.Node) bool {
			switch x := n.(type) {
			case *ast.AssignStmt:
				for i, l := range x.Lhs {
					id, ok := l.(*ast.Ident)
					if !ok {
						continue
					}
					g := len(x.Lhs) == len(x.Rhs) && isGetCollCall(x.Rhs[i])
					defs[id.Name] = append(defs[id.Name], def{x.Pos(), g})
				}
			case *ast.ValueSpec:
				for i, id := range x.Names {
					g := i < len(x.Values) && isGetCollCall(x.Values[i])
					defs[id.Name] = append(defs[id.Name], def{x.Pos(), g})
				}
			case *ast.CallExpr:
				switch f := x.Fun.(type) {
				case *ast.SelectorExpr:
					if f.Sel.Name == "casColl" {
						cass = append(cass, x)
					}
				case *ast.Ident:
					if f.Name == "copyColl" {
						copies = append(copies, x)
					}
				}
			}
			return true
		})
		for _, c := range cass {
			st := casSite{fn: q}
			if len(c.Args) == 2 {
				if id, ok := c.Args[0].(*ast.Ident); ok {
					st.argIdent = true
					ds := defs[id.Name]
					if len(ds) == 1 && ds[0].getColl {
						st.defGetColl = true
						st.defBefore = ds[0].pos < c.Pos()
						st.sameLoop = inner(ds[0].pos) == inner(c.Pos())
					}
					st.copiesFromX = true
					for _, cp := range copies {
						mentions, fresh := false, false
						ast.Inspect(cp, func(n ast.Node) bool {
							if i2, ok := n.(*ast.Ident); ok && i2.Name == id.Name {
								mentions = true
							}
							if e, ok := n.(ast.Expr); ok && isGetCollCall(e) {
								fresh = true
							}
							return true
						})
						if !mentions || fresh {
							st.copiesFromX = false
						}
					}
				}
			}
			out = append(out, st)
		}
	}
	sort.Slice(out, func(i, j int) bool { return out[i].fn < out[j].fn })
	return out
}

func (ex *extractor) writeCas(path string) {
	var b strings.Builder
	b.WriteString("/- GENERATED by /verif/harness/cmd/extract from /repo — do not edit. -/\nnamespace Gkv.Gen.Cas\n\n")
	b.WriteString("/-- every call `_.casColl(x, y)`: (function, x is an identifier, x's only definition is `x := _.getColl()`,\n    it precedes the call, both lie in the same innermost loop, every copyColl in the function copies from x) -/\n")
	b.WriteString("def sites : List (String × Bool × Bool × Bool × Bool × Bool) := [\n")
	ss := ex.casSites()
	for i, st := range ss {
		sep := ","
		if i == len(ss)-1 {
			sep = ""
		}
		fmt.Fprintf(&b, "  (%q, %v, %v, %v, %v, %v)%s\n", st.fn, st.argIdent, st.defGetColl, st.defBefore, st.sameLoop, st.copiesFromX, sep)
	}
	b.WriteString("]\n\nend Gkv.Gen.Cas\n")
	if err := os.WriteFile(path, []byte(b.String()), 0644); err != nil {
		fail("%v", err)
	}
}

// ---------------------------------------------------------------------------------------------
// constants

func (ex *extractor) constVal(name string) (constant.Value, bool) {
	o := ex.pkg.Scope().Lookup(name)
	if c, ok := o.(*types.Const); ok {
		return c.Val(), true
	}
	return nil, false
}

// varInit returns the initialiser expression of a package-level variable.
func (ex *extractor) varInit(name string) ast.Expr {
	for _, f := range ex.files {
		for _, d := range f.Decls {
			gd, ok := d.(*ast.GenDecl)
			if !ok || gd.Tok != token.VAR {
				continue
			}
			for _, s := range gd.Specs {
				vs := s.(*ast.ValueSpec)
				for i, n := range vs.Names {
					if n.Name == name && i < len(vs.Values) {
						return vs.Values[i]
					}
				}
			}
		}
	}
	return nil
}

// byteSliceLit recognises `[]byte("...")`.
func byteSliceLit(e ast.Expr) (string, bool) {
	c, ok := e.(*ast.CallExpr)
	if !ok || len(c.Args) != 1 {
		return "", false
	}
	if at, ok := c.Fun.(*ast.ArrayType); !ok || at.Len != nil {
		return "", false
	}
	bl, ok := c.Args[0].(*ast.BasicLit)
	if !ok || bl.Kind != token.STRING {
		return "", false
	}
	s, err := strconv.Unquote(bl.Value)
	return s, err == nil
}

// evalInt evaluates an integer expression over constants, len(<byte-slice var>) and conversions.
func (ex *extractor) evalInt(e ast.Expr) (int64, bool) {
	if tv, ok := ex.info.Types[e]; ok && tv.Value != nil {
		if v, ok := constant.Int64Val(constant.ToInt(tv.Value)); ok {
			return v, true
		}
	}
	switch x := e.(type) {
	case *ast.ParenExpr:
		return ex.evalInt(x.X)
	case *ast.BinaryExpr:
		a, ok1 := ex.evalInt(x.X)
		b, ok2 := ex.evalInt(x.Y)
		if !ok1 || !ok2 {
			return 0, false
		}
		switch x.Op {
		case token.ADD:
			return a + b, true
		case token.SUB:
			return a - b, true
		case token.MUL:
			return a * b, true
		}
	case *ast.CallExpr:
		if id, ok := x.Fun.(*ast.Ident); ok && len(x.Args) == 1 {
			if id.Name == "len" {
				if v, ok := x.Args[0].(*ast.Ident); ok {
					if init := ex.varInit(v.Name); init != nil {
						if s, ok := byteSliceLit(init); ok {
							return int64(len(s)), true
						}
					}
				}
				return 0, false
			}
			// conversion such as int64(...), uint32(...)
			if _, isType := ex.info.Uses[id].(*types.TypeName); isType {
				return ex.evalInt(x.Args[0])
			}
		}
	case *ast.Ident:
		if init := ex.varInit(x.Name); init != nil {
			return ex.evalInt(init)
		}
	}
	return 0, false
}

func leanBytes(s string) string {
	var p []string
	for i := 0; i < len(s); i++ {
		p = append(p, strconv.Itoa(int(s[i])))
	}
	return "[" + strings.Join(p, ", ") + "]"
}

func (ex *extractor) writeConsts(path string) {
	var b strings.Builder
	b.WriteString("/- GENERATED by /verif/harness/cmd/extract from /repo — do not edit. -/\nnamespace Gkv.Gen\n\n")
	intConst := func(lean, goName string) {
		if v, ok := ex.constVal(goName); ok {
			if n, ok := constant.Int64Val(constant.ToInt(v)); ok {
				fmt.Fprintf(&b, "def %s : Nat := %d\n", lean, n)
				return
			}
		}
		if init := ex.varInit(goName); init != nil {
			if n, ok := ex.evalInt(init); ok {
				fmt.Fprintf(&b, "def %s : Nat := %d\n", lean, n)
				return
			}
		}
		fail("constant %s not found or not evaluable", goName)
	}
	intConst("version", "Version")
	intConst("plocLength", "plocLength")
	intConst("itemLocHdrLength", "itemLocHdrLength")
	intConst("lenLoc", "lenLoc")
	intConst("keyLoc", "keyLoc")
	intConst("valLoc", "valLoc")
	intConst("priLoc", "priLoc")
	intConst("priSz", "priSz")
	intConst("keyPSize", "keyPSize")
	intConst("maxBlockCnt", "MaxBlockCnt")
	intConst("rootsEndLen", "rootsEndLen")
	intConst("rootsLen", "rootsLen")
	for _, m := range []string{"MagicBeg", "MagicEnd"} {
		init := ex.varInit(m)
		s, ok := byteSliceLit(init)
		if !ok {
			fail("%s is not a []byte(\"...\") literal", m)
		}
		fmt.Fprintf(&b, "def %s : List UInt8 := %s\n", strings.ToLower(m[:1])+m[1:], leanBytes(s))
	}
	// node record length: the `length := ...` in nodeLoc.write and the check in nodeLoc.read
	nodeLens := map[int64]bool{}
	for _, q := range []string{"nodeLoc.write", "nodeLoc.read"} {
		fd := ex.funcs[q]
		if fd == nil {
			fail("function %s not found", q)
		}
		ast.Inspect(fd.Body, func(n ast.Node) bool {
			if be, ok := n.(*ast.BinaryExpr); ok && be.Op == token.ADD {
				if strings.Contains(exprString(be), "plocLength") {
					if v, ok := ex.evalInt(be); ok {
						if !strings.Contains(exprString(be), "8") {
							return true
						}
						nodeLens[v] = true
						return false
					}
				}
			}
			return true
		})
	}
	var nl []int64
	for v := range nodeLens {
		nl = append(nl, v)
	}
	sort.Slice(nl, func(i, j int) bool { return nl[i] < nl[j] })
	fmt.Fprintf(&b, "def nodeRecLens : List Nat := %s\n", strings.ReplaceAll(fmt.Sprint(nl), " ", ", "))
	// JSON tags of ploc
	var tags []string
	for _, f := range ex.files {
		ast.Inspect(f, func(n ast.Node) bool {
			ts, ok := n.(*ast.TypeSpec)
			if !ok || ts.Name.Name != "ploc" {
				return true
			}
			if st, ok := ts.Type.(*ast.StructType); ok {
				for _, fl := range st.Fields.List {
					tag := ""
					if fl.Tag != nil {
						t, _ := strconv.Unquote(fl.Tag.Value)
						tag = reflectTag(t, "json")
					}
					for _, nm := range fl.Names {
						tags = append(tags, fmt.Sprintf("(%q, %q, %q)", nm.Name, exprString(fl.Type), tag))
					}
				}
			}
			return false
		})
	}
	fmt.Fprintf(&b, "def plocFields : List (String × String × String) := [%s]\n", strings.Join(tags, ", "))
	// key length bound and validation literals in SetItem
	var lits []string
	if fd := ex.funcs["Collection.SetItem"]; fd != nil {
		ast.Inspect(fd.Body, func(n ast.Node) bool {
			if be, ok := n.(*ast.BinaryExpr); ok {
				switch be.Op {
				case token.GTR, token.LSS, token.EQL, token.GEQ, token.LEQ:
					lits = append(lits, strconv.Quote(exprString(be)))
				}
			}
			return true
		})
	} else {
		fail("Collection.SetItem not found")
	}
	fmt.Fprintf(&b, "def setItemGuards : List String := [%s]\n", strings.Join(lits, ", "))
	// byte order used by the codecs
	orders := map[string]bool{}
	for _, f := range ex.files {
		ast.Inspect(f, func(n ast.Node) bool {
			if se, ok := n.(*ast.SelectorExpr); ok {
				if id, ok := se.X.(*ast.Ident); ok && id.Name == "binary" &&
					(se.Sel.Name == "BigEndian" || se.Sel.Name == "LittleEndian") {
					orders[se.Sel.Name] = true
				}
			}
			return true
		})
	}
	var ol []string
	for o := range orders {
		ol = append(ol, strconv.Quote(o))
	}
	sort.Strings(ol)
	fmt.Fprintf(&b, "def byteOrders : List String := [%s]\n", strings.Join(ol, ", "))
	b.WriteString("\nend Gkv.Gen\n")
	if err := os.WriteFile(path, []byte(b.String()), 0644); err != nil {
		fail("%v", err)
	}
}

func reflectTag(tag, key string) string {
	for tag != "" {
		i := strings.Index(tag, ":\"")
		if i < 0 {
			return ""
		}
		name := strings.TrimSpace(tag[:i])
		rest := tag[i+2:]
		j := strings.Index(rest, "\"")
		if j < 0 {
			return ""
		}
		if name == key {
			return rest[:j]
		}
		tag = rest[j+1:]
	}
	return ""
}

func exprString(e ast.Expr) string {
	switch x := e.(type) {
	case *ast.Ident:
		return x.Name
	case *ast.BasicLit:
		return x.Value
	case *ast.SelectorExpr:
		return exprString(x.X) + "." + x.Sel.Name
	case *ast.BinaryExpr:
		return exprString(x.X) + " " + x.Op.String() + " " + exprString(x.Y)
	case *ast.CallExpr:
		var a []string
		for _, y := range x.Args {
			a = append(a, exprString(y))
		}
		return exprString(x.Fun) + "(" + strings.Join(a, ", ") + ")"
	case *ast.StarExpr:
		return "*" + exprString(x.X)
	case *ast.UnaryExpr:
		return x.Op.String() + exprString(x.X)
	case *ast.ParenExpr:
		return "(" + exprString(x.X) + ")"
	case *ast.IndexExpr:
		return exprString(x.X) + "[" + exprString(x.Index) + "]"
	case *ast.ArrayType:
		return "[]" + exprString(x.Elt)
	}
	return fmt.Sprintf("%T", e)
}

// ---------------------------------------------------------------------------------------------
// call graph and lock regions

var fileSinks = map[string]bool{"ReadAt": true, "WriteAt": true, "Stat": true, "Truncate": true}

// callee classifies a call expression: package function/method names, FILE.x sinks, DYN.x.
func (ex *extractor) callees(c *ast.CallExpr) []string {
	switch f := c.Fun.(type) {
	case *ast.Ident:
		obj := ex.info.Uses[f]
		switch o := obj.(type) {
		case *types.Func:
			if o.Pkg() == ex.pkg {
				return []string{o.Name()}
			}
			return nil
		case *types.Var:
			return []string{"DYN." + f.Name}
		}
		return nil
	case *ast.SelectorExpr:
		if sel, ok := ex.info.Selections[f]; ok {
			switch sel.Kind() {
			case types.MethodVal:
				fn := sel.Obj().(*types.Func)
				recv := sel.Recv()
				if p, ok := recv.(*types.Pointer); ok {
					recv = p.Elem()
				}
				if _, isIface := recv.Underlying().(*types.Interface); isIface {
					if fileSinks[fn.Name()] {
						return []string{"FILE." + fn.Name()}
					}
					// an interface of this package: every package method of that name (CHA)
					if fn.Pkg() == ex.pkg {
						return append([]string(nil), ex.methods[fn.Name()]...)
					}
					return nil
				}
				if fn.Pkg() == ex.pkg {
					if n, ok := recv.(*types.Named); ok {
						return []string{n.Obj().Name() + "." + fn.Name()}
					}
				}
				if fn.Pkg() != nil && strings.HasSuffix(fn.Pkg().Path(), "gkvlite") {
					if n, ok := recv.(*types.Named); ok {
						return []string{"gkvlite." + n.Obj().Name() + "." + fn.Name()}
					}
				}
				// a method of an embedded/other-package type reached through a package type
				if fileSinks[fn.Name()] {
					return []string{"FILE." + fn.Name()}
				}
				return nil
			case types.FieldVal:
				return []string{"DYN." + f.Sel.Name}
			}
		}
		// qualified identifier pkg.Func
		if id, ok := f.X.(*ast.Ident); ok {
			if pn, ok := ex.info.Uses[id].(*types.PkgName); ok {
				if pn.Imported().Path() == "encoding/json" {
					switch f.Sel.Name {
					case "Marshal", "MarshalIndent":
						return append([]string(nil), ex.methods["MarshalJSON"]...)
					case "Unmarshal":
						return append([]string(nil), ex.methods["UnmarshalJSON"]...)
					}
				}
				if pn.Imported().Path() == "os" {
					switch f.Sel.Name {
					case "OpenFile", "Create", "Remove", "Rename", "Truncate", "WriteFile":
						return []string{"FILE.OpenRW"}
					case "Open":
						return []string{"FILE.OpenRO"}
					}
				}
				if strings.HasSuffix(pn.Imported().Path(), "gkvlite") {
					return []string{"gkvlite." + f.Sel.Name}
				}
			}
		}
	case *ast.FuncLit:
		return nil // body is walked as part of the enclosing function
	case *ast.ParenExpr, *ast.IndexExpr, *ast.CallExpr:
		return []string{"DYN.expr"}
	}
	return nil
}

func lockName(e ast.Expr) string {
	s := exprString(e)
	if i := strings.LastIndex(s, "."); i >= 0 {
		// t.rootLock / cold.rootLock / s.m -> field name
		return s[i+1:]
	}
	return s
}

// constFalse reports whether the condition is a compile-time false constant (e.g. `nodeMutex`).
func (ex *extractor) constFalse(e ast.Expr) bool {
	if tv, ok := ex.info.Types[e]; ok && tv.Value != nil && tv.Value.Kind() == constant.Bool {
		return !constant.BoolVal(tv.Value)
	}
	return false
}

type lockSet map[string]bool

func (l lockSet) copy() lockSet {
	m := lockSet{}
	for k := range l {
		m[k] = true
	}
	return m
}

func (ex *extractor) walkFunc(q string, fd *ast.FuncDecl) {
	held := lockSet{}
	ex.walkStmts(q, fd.Body.List, held)
	// pin bracket: does the body open with `x := recv.rootAddRef()` + `defer recv.rootDecRef(x)`?
	pin, unpin := false, false
	for i, st := range fd.Body.List {
		if i > 12 {
			break
		}
		if as, ok := st.(*ast.AssignStmt); ok && len(as.Rhs) == 1 {
			if c, ok := as.Rhs[0].(*ast.CallExpr); ok && strings.HasSuffix(exprString(c.Fun), ".rootAddRef") {
				pin = true
			}
		}
		if ds, ok := st.(*ast.DeferStmt); ok && strings.HasSuffix(exprString(ds.Call.Fun), ".rootDecRef") && pin {
			unpin = true
		}
	}
	ex.pins[q] = [2]bool{pin, unpin}
}

func (ex *extractor) record(q string, c *ast.CallExpr, held lockSet) {
	for _, cal := range ex.callees(c) {
		ex.edges[[2]string{q, cal}] = true
		for l := range held {
			ex.locked[[3]string{q, cal, l}] = true
		}
	}
}

// walkExpr records calls and function-value references inside an expression.
func (ex *extractor) walkExpr(q string, e ast.Node, held lockSet) {
	if e == nil {
		return
	}
	ast.Inspect(e, func(n ast.Node) bool {
		switch x := n.(type) {
		case *ast.CallExpr:
			ex.record(q, x, held)
		case *ast.FuncLit:
			// closure body: attributed to the enclosing function, with the locks held here
			ex.walkStmts(q, x.Body.List, held.copy())
			return false
		case *ast.Ident:
			// a package function used as a value may be called by whoever receives it
			if fn, ok := ex.info.Uses[x].(*types.Func); ok && fn.Pkg() == ex.pkg {
				if sig, ok := fn.Type().(*types.Signature); ok && sig.Recv() == nil {
					ex.edges[[2]string{q, fn.Name()}] = true
					for l := range held {
						ex.locked[[3]string{q, fn.Name(), l}] = true
					}
				}
			}
		}
		return true
	})
}

func (ex *extractor) walkStmts(q string, list []ast.Stmt, held lockSet) {
	for _, st := range list {
		ex.walkStmt(q, st, held)
	}
}

func (ex *extractor) lockOp(c *ast.CallExpr) (string, string) {
	se, ok := c.Fun.(*ast.SelectorExpr)
	if !ok {
		return "", ""
	}
	switch se.Sel.Name {
	case "Lock", "RLock", "Unlock", "RUnlock":
		if tv, ok := ex.info.Types[se.X]; ok {
			ts := tv.Type.String()
			if strings.Contains(ts, "sync.Mutex") || strings.Contains(ts, "sync.RWMutex") {
				return se.Sel.Name, lockName(se.X)
			}
		}
	}
	return "", ""
}

func (ex *extractor) walkStmt(q string, st ast.Stmt, held lockSet) {
	switch s := st.(type) {
	case *ast.ExprStmt:
		if c, ok := s.X.(*ast.CallExpr); ok {
			if op, name := ex.lockOp(c); op != "" {
				if op == "Lock" || op == "RLock" {
					ex.edges[[2]string{q, "LOCK." + name}] = true
					// lock order pairs: acquiring `name` while holding others
					for l := range held {
						ex.locked[[3]string{q, "LOCK." + name, l}] = true
					}
					held[name] = true
				} else {
					delete(held, name)
				}
				return
			}
		}
		ex.walkExpr(q, s.X, held)
	case *ast.DeferStmt:
		if op, _ := ex.lockOp(s.Call); op == "Unlock" || op == "RUnlock" {
			return // stays held until the function returns
		}
		// a deferred call runs at return: conservatively with the locks held now
		ex.walkExpr(q, s.Call, held)
	case *ast.GoStmt:
		ex.walkExpr(q, s.Call, lockSet{})
	case *ast.IfStmt:
		if s.Init != nil {
			ex.walkStmt(q, s.Init, held)
		}
		ex.walkExpr(q, s.Cond, held)
		if ex.constFalse(s.Cond) {
			if s.Else != nil {
				ex.walkStmt(q, s.Else, held)
			}
			return
		}
		a := held.copy()
		ex.walkStmts(q, s.Body.List, a)
		b := held.copy()
		if s.Else != nil {
			ex.walkStmt(q, s.Else, b)
		}
		// join: a lock is held afterwards if it may be held on either path
		for k := range held {
			delete(held, k)
		}
		for k := range a {
			held[k] = true
		}
		for k := range b {
			held[k] = true
		}
		// a branch that returns does not flow on
		if endsInReturn(s.Body.List) {
			for k := range held {
				delete(held, k)
			}
			for k := range b {
				held[k] = true
			}
		}
	case *ast.BlockStmt:
		ex.walkStmts(q, s.List, held)
	case *ast.ForStmt:
		if s.Init != nil {
			ex.walkStmt(q, s.Init, held)
		}
		ex.walkExpr(q, s.Cond, held)
		ex.walkStmts(q, s.Body.List, held)
		if s.Post != nil {
			ex.walkStmt(q, s.Post, held)
		}
	case *ast.RangeStmt:
		ex.walkExpr(q, s.X, held)
		ex.walkStmts(q, s.Body.List, held)
	case *ast.SwitchStmt:
		if s.Init != nil {
			ex.walkStmt(q, s.Init, held)
		}
		ex.walkExpr(q, s.Tag, held)
		for _, cc := range s.Body.List {
			c := cc.(*ast.CaseClause)
			for _, e := range c.List {
				ex.walkExpr(q, e, held)
			}
			ex.walkStmts(q, c.Body, held.copy())
		}
	case *ast.TypeSwitchStmt:
		ex.walkStmt(q, s.Assign, held)
		for _, cc := range s.Body.List {
			ex.walkStmts(q, cc.(*ast.CaseClause).Body, held.copy())
		}
	case *ast.SelectStmt:
		for _, cc := range s.Body.List {
			ex.walkStmts(q, cc.(*ast.CommClause).Body, held.copy())
		}
	case *ast.LabeledStmt:
		ex.walkStmt(q, s.Stmt, held)
	default:
		ex.walkExpr(q, st, held)
	}
}

func endsInReturn(l []ast.Stmt) bool {
	if len(l) == 0 {
		return false
	}
	_, ok := l[len(l)-1].(*ast.ReturnStmt)
	return ok
}

// ---------------------------------------------------------------------------------------------
// output

func (ex *extractor) nodeIndex() ([]string, map[string]int) {
	set := map[string]bool{}
	for q := range ex.funcs {
		set[q] = true
	}
	for e := range ex.edges {
		set[e[0]] = true
		set[e[1]] = true
	}
	for e := range ex.locked {
		set[e[1]] = true
	}
	var names []string
	for n := range set {
		names = append(names, n)
	}
	sort.Strings(names)
	idx := map[string]int{}
	for i, n := range names {
		idx[n] = i
	}
	return names, idx
}

func (ex *extractor) writeGraph(path, ns string) {
	names, idx := ex.nodeIndex()
	var b strings.Builder
	fmt.Fprintf(&b, "/- GENERATED by /verif/harness/cmd/extract from /repo — do not edit. -/\nnamespace Gkv.Gen.%s\n\n", ns)
	b.WriteString("/-- functions, methods (Type.method), file sinks (FILE.*) and dynamic calls (DYN.*) -/\ndef names : List String := [\n")
	for i, n := range names {
		sep := ","
		if i == len(names)-1 {
			sep = ""
		}
		fmt.Fprintf(&b, "  %q%s\n", n, sep)
	}
	b.WriteString("]\n\n/-- static call edges (caller index, callee index) -/\ndef edges : List (Nat × Nat) := [\n")
	var es [][2]int
	for e := range ex.edges {
		es = append(es, [2]int{idx[e[0]], idx[e[1]]})
	}
	sort.Slice(es, func(i, j int) bool {
		if es[i][0] != es[j][0] {
			return es[i][0] < es[j][0]
		}
		return es[i][1] < es[j][1]
	})
	for i, e := range es {
		sep := ","
		if i == len(es)-1 {
			sep = ""
		}
		fmt.Fprintf(&b, "  (%d, %d)%s\n", e[0], e[1], sep)
	}
	b.WriteString("]\n\n")
	// certificate: everything that can reach a file write / truncate / read-write open (reverse
	// closure, computed here, CHECKED in Lean by `Graph.closed`)
	var sinks []int
	for _, sn := range []string{"FILE.WriteAt", "FILE.Truncate", "FILE.OpenRW"} {
		if i, ok := idx[sn]; ok {
			sinks = append(sinks, i)
		}
	}
	fmt.Fprintf(&b, "/-- indices of the write-type sinks present in this graph -/\ndef writeSinks : List Nat := %s\n\n", leanNats(sinks))
	rev := closureOf(es, sinks, true)
	fmt.Fprintf(&b, "/-- hint: nodes from which a write-type sink is reachable -/\ndef writersHint : List Nat := %s\n\n", leanNats(rev))
	b.WriteString("/-- exported functions and methods of exported types -/\ndef exported : List String := [\n")
	var exp []string
	for q := range ex.funcs {
		parts := strings.Split(q, ".")
		ok := true
		for _, p := range parts {
			if !ast.IsExported(p) {
				ok = false
			}
		}
		if ok {
			exp = append(exp, q)
		}
	}
	sort.Strings(exp)
	for i, n := range exp {
		sep := ","
		if i == len(exp)-1 {
			sep = ""
		}
		fmt.Fprintf(&b, "  %q%s\n", n, sep)
	}
	fmt.Fprintf(&b, "]\n\nend Gkv.Gen.%s\n", ns)
	if err := os.WriteFile(path, []byte(b.String()), 0644); err != nil {
		fail("%v", err)
	}
}

func leanNats(l []int) string {
	var p []string
	for _, x := range l {
		p = append(p, strconv.Itoa(x))
	}
	return "[" + strings.Join(p, ", ") + "]"
}

// closureOf: reverse (callers) or forward (callees) closure of a start set over the edge list.
func closureOf(es [][2]int, start []int, reverse bool) []int {
	in := map[int]bool{}
	for _, s := range start {
		in[s] = true
	}
	for changed := true; changed; {
		changed = false
		for _, e := range es {
			a, b := e[0], e[1]
			if reverse {
				a, b = b, a
			}
			if in[a] && !in[b] {
				in[b] = true
				changed = true
			}
		}
	}
	var out []int
	for x := range in {
		out = append(out, x)
	}
	sort.Ints(out)
	return out
}

func (ex *extractor) writeLocks(path string) {
	var b strings.Builder
	b.WriteString("/- GENERATED by /verif/harness/cmd/extract from /repo — do not edit. -/\nnamespace Gkv.Gen.Locks\n\n")
	b.WriteString("/-- (caller, callee, lock): `callee` is called (or, for LOCK.x, lock x is acquired) while `caller` holds `lock` -/\ndef heldCalls : List (String × String × String) := [\n")
	var ls [][3]string
	for e := range ex.locked {
		ls = append(ls, e)
	}
	sort.Slice(ls, func(i, j int) bool {
		for k := 0; k < 3; k++ {
			if ls[i][k] != ls[j][k] {
				return ls[i][k] < ls[j][k]
			}
		}
		return false
	})
	for i, e := range ls {
		sep := ","
		if i == len(ls)-1 {
			sep = ""
		}
		fmt.Fprintf(&b, "  (%q, %q, %q)%s\n", e[0], e[1], e[2], sep)
	}
	b.WriteString("]\n\n")
	// per lock: hint of everything that can run while it is held (forward closure of the callees)
	_, idx := ex.nodeIndex()
	var es [][2]int
	for e := range ex.edges {
		es = append(es, [2]int{idx[e[0]], idx[e[1]]})
	}
	starts := map[string][]int{}
	for _, e := range ls {
		starts[e[2]] = append(starts[e[2]], idx[e[1]])
	}
	var locks []string
	for l := range starts {
		locks = append(locks, l)
	}
	sort.Strings(locks)
	b.WriteString("/-- (lock, indices of the callees made while it is held, hint: everything reachable from them) -/\ndef underLock : List (String × List Nat × List Nat) := [\n")
	for i, l := range locks {
		sep := ","
		if i == len(locks)-1 {
			sep = ""
		}
		st := starts[l]
		sort.Ints(st)
		fmt.Fprintf(&b, "  (%q, %s, %s)%s\n", l, leanNats(st), leanNats(closureOf(es, st, false)), sep)
	}
	b.WriteString("]\n\nend Gkv.Gen.Locks\n")
	if err := os.WriteFile(path, []byte(b.String()), 0644); err != nil {
		fail("%v", err)
	}
}

func (ex *extractor) writePins(path string) {
	var b strings.Builder
	b.WriteString("/- GENERATED by /verif/harness/cmd/extract from /repo — do not edit. -/\nnamespace Gkv.Gen.Pins\n\n")
	b.WriteString("/-- (function, opens with `x := _.rootAddRef()`, followed by `defer _.rootDecRef(x)`) -/\ndef pins : List (String × Bool × Bool) := [\n")
	var qs []string
	for q := range ex.pins {
		qs = append(qs, q)
	}
	sort.Strings(qs)
	for i, q := range qs {
		sep := ","
		if i == len(qs)-1 {
			sep = ""
		}
		p := ex.pins[q]
		fmt.Fprintf(&b, "  (%q, %v, %v)%s\n", q, p[0], p[1], sep)
	}
	b.WriteString("]\n\n/-- every call of `rootAddRef` in the package: (enclosing function, how its result is used:\n    \"paired\" = `x := _.rootAddRef()` directly followed, in that function, by `defer _.rootDecRef(x)`;\n    \"kept\" = stored into a field / map / composite literal, i.e. the pin is handed to another owner) -/\n")
	b.WriteString("def pinSites : List (String × String) := [\n")
	var ps []string
	for q, fd := range ex.funcs {
		if fd.Body == nil || q == "Collection.rootAddRef" || q == "Collection.rootAddRefIfOpen" {
			continue
		}
		// statements `x := recv.rootAddRef()` whose NEXT statement in the same block is `defer recv.rootDecRef(x)`
		paired := map[token.Pos]bool{}
		ast.Inspect(fd.Body, func(n ast.Node) bool {
			blk, ok := n.(*ast.BlockStmt)
			if !ok {
				return true
			}
			for i, st := range blk.List {
				as, ok := st.(*ast.AssignStmt)
				if !ok || len(as.Lhs) != 1 || len(as.Rhs) != 1 {
					continue
				}
				c, ok := as.Rhs[0].(*ast.CallExpr)
				if !ok {
					continue
				}
				sel, ok := c.Fun.(*ast.SelectorExpr)
				if !ok || (sel.Sel.Name != "rootAddRef" && sel.Sel.Name != "rootAddRefIfOpen") {
					continue
				}
				id, ok := as.Lhs[0].(*ast.Ident)
				if !ok || i+1 >= len(blk.List) {
					continue
				}
				if d, ok := blk.List[i+1].(*ast.DeferStmt); ok {
					if ds, ok := d.Call.Fun.(*ast.SelectorExpr); ok && ds.Sel.Name == "rootDecRef" && len(d.Call.Args) == 1 {
						if a, ok := d.Call.Args[0].(*ast.Ident); ok && a.Name == id.Name {
							paired[c.Pos()] = true
						}
					}
				}
			}
			return true
		})
		ast.Inspect(fd.Body, func(n ast.Node) bool {
			if c, ok := n.(*ast.CallExpr); ok {
				if sel, ok := c.Fun.(*ast.SelectorExpr); ok && (sel.Sel.Name == "rootAddRef" || sel.Sel.Name == "rootAddRefIfOpen") {
					how := "kept"
					if paired[c.Pos()] {
						how = "paired"
					}
					ps = append(ps, fmt.Sprintf("(%q, %q)", q, how))
				}
			}
			return true
		})
	}
	sort.Strings(ps)
	for i, r := range ps {
		sep := ","
		if i == len(ps)-1 {
			sep = ""
		}
		b.WriteString("  " + r + sep + "\n")
	}
	b.WriteString("]\n\nend Gkv.Gen.Pins\n")
	if err := os.WriteFile(path, []byte(b.String()), 0644); err != nil {
		fail("%v", err)
	}
}

// ---------------------------------------------------------------------------------------------
// site tables (C15, C10): where the package takes or drops an item reference, where it marks,
// reclaims, allocates and frees nodes / node locations / versions, where it changes a version's
// reference count, and every direct assignment to the fields those protocols live in
// (`node.next`, `rootNodeLoc.refs`, `.superseded`, `.chainedRootNodeLoc`, `.reclaimLater[i]`).
// The event systems of Model/Refs.lean and Model/Versions.lean claim to have one event kind per
// such place; these tables are what that claim is checked against.

var refCallees = map[string]bool{"ItemAddRef": true, "ItemDecRef": true, "ItemAlloc": true}
var reclaimCallees = map[string]bool{"markReclaimable": true, "reclaimMarkUpdate": true, "reclaimMarkClear": true,
	"markAllUnlocked": true, "reclaimNodesUnlocked": true, "freeNodeUnlocked": true,
	"freeRootNodeLoc": true, "mkRootNodeLoc": true, "rootAddRef": true, "rootAddRefIfOpen": true,
	"rootDecRef": true, "rootDecRefUnlocked": true, "rootCAS": true, "closeCollection": true}
var protoFields = map[string]bool{"next": true, "refs": true, "superseded": true, "chainedRootNodeLoc": true,
	"chainedCollection": true, "reclaimLater": true}

func (ex *extractor) writeSites(path string) {
	var refs, recl, asg []string
	var qs []string
	for q := range ex.funcs {
		qs = append(qs, q)
	}
	sort.Strings(qs)
	fieldOf := func(e ast.Expr) (string, bool) {
		for {
			switch x := e.(type) {
			case *ast.IndexExpr:
				e = x.X
				continue
			case *ast.ParenExpr:
				e = x.X
				continue
			case *ast.SelectorExpr:
				if protoFields[x.Sel.Name] {
					return x.Sel.Name, true
				}
			}
			return "", false
		}
	}
	for _, q := range qs {
		fd := ex.funcs[q]
		ast.Inspect(fd.Body, func(n ast.Node) bool {
			switch x := n.(type) {
			case *ast.CallExpr:
				name := ""
				switch f := x.Fun.(type) {
				case *ast.SelectorExpr:
					name = f.Sel.Name
				case *ast.Ident:
					name = f.Name
				}
				if refCallees[name] {
					arg := ""
					if len(x.Args) > 0 {
						arg = exprString(x.Args[len(x.Args)-1])
					}
					refs = append(refs, fmt.Sprintf("(%q, %q, %q)", q, name, arg))
				}
				if reclaimCallees[name] {
					var a []string
					for _, y := range x.Args {
						a = append(a, exprString(y))
					}
					recl = append(recl, fmt.Sprintf("(%q, %q, %q)", q, name, strings.Join(a, ", ")))
				}
			case *ast.AssignStmt:
				for i, l := range x.Lhs {
					if f, ok := fieldOf(l); ok {
						r := ""
						if len(x.Rhs) == len(x.Lhs) {
							r = exprString(x.Rhs[i])
						} else if len(x.Rhs) == 1 {
							r = exprString(x.Rhs[0])
						}
						asg = append(asg, fmt.Sprintf("(%q, %q, %q)", q, exprString(l)+" "+x.Tok.String(), r))
						_ = f
					}
				}
			case *ast.IncDecStmt:
				if _, ok := fieldOf(x.X); ok {
					asg = append(asg, fmt.Sprintf("(%q, %q, %q)", q, exprString(x.X)+" "+x.Tok.String(), ""))
				}
			}
			return true
		})
	}
	var b strings.Builder
	b.WriteString("/- GENERATED by /verif/harness/cmd/extract from /repo — do not edit. -/\nnamespace Gkv.Gen.Sites\n\n")
	emit := func(doc, name string, rows []string) {
		fmt.Fprintf(&b, "/-- %s -/\ndef %s : List (String × String × String) := [\n", doc, name)
		for i, r := range rows {
			sep := ","
			if i == len(rows)-1 {
				sep = ""
			}
			b.WriteString("  " + r + sep + "\n")
		}
		b.WriteString("]\n\n")
	}
	emit("every call of `ItemAddRef` / `ItemDecRef` / `ItemAlloc` in the package, in source order per function: (enclosing function, callee, last argument)", "refSites", refs)
	emit("every call of the marking, reclaiming, allocating, freeing and version-counting functions: (enclosing function, callee, arguments)", "reclaimSites", recl)
	emit("every assignment to (or increment, decrement of) a field named next, refs, superseded, chainedRootNodeLoc, chainedCollection, reclaimLater: (enclosing function, target and operator, right-hand side)", "protoAssigns", asg)
	b.WriteString("end Gkv.Gen.Sites\n")
	if err := os.WriteFile(path, []byte(b.String()), 0644); err != nil {
		fail("%v", err)
	}
}
